(* LinkProgress.v — C03: on an ended link EVERY started call returns, wherever it currently is
   (before its request write, blocked in its select, holding a result, inside the recover path),
   after a bounded number of steps of its own waiter and itself; the error is non-nil unless a
   genuine error-free response was already in hand.  Over all reachable states of Link.v. *)
From Verif Require Import Base Link LinkProofs LinkInv16 LinkInvB LinkInvH LinkInvC LinkInvT.

Lemma lreachable_step calls s c b s' : lreachable fixed calls s -> lstep fixed calls s c b = Some s' -> lreachable fixed calls s'.
Proof.
  intros (cs & Hr) Hs. exists (cs ++ [(c, b)]). rewrite (lrun_app _ _ _ _ _ _ Hr). simpl. rewrite Hs. reflexivity.
Qed.

(* the second half of the recover path: one step of the caller *)
Lemma caller_seterr_returns calls s i e e' :
  crashed s = false -> tget (threads s) (TCall i) = Some (SetErrMid e (KReturn e')) ->
  exists s', lstep fixed calls s (Run (TCall i)) 0 = Some s' /\
             tget (threads s') (TCall i) = Some (CReturned zero (Some e')).
Proof.
  intros Hc Ht. unfold lstep. rewrite Hc, Ht. simpl. eexists. split; [reflexivity|].
  simpl. apply tget_tset_same.
Qed.

Lemma caller_panic_state calls s i e :
  crashed (caller_panic calls s i e) = crashed s /\
  tget (threads (caller_panic calls s i e)) (TCall i) = Some (SetErrMid e (KReturn e)).
Proof.
  split; [reflexivity|]. unfold caller_panic, begin_seterr, wake; simpl. rewrite tget_map_wake_gen, tget_tset_same. reflexivity.
Qed.

(* in_hand: a genuine error-free response for call i is already held by its waiter or by the caller *)
Definition in_hand (s : lst) (i : nat) : Prop :=
  (exists x, tget (threads s) (TWaiter i) = Some (WWoke (WResp x None))) \/
  (exists x, tget (threads s) (TCall i) = Some (CSelected (Some (WResp x None)))) \/
  (exists v, tget (threads s) (TCall i) = Some (CReturned v None)).

Lemma started_call_returns_lemma calls s i st :
  lreachable fixed calls s -> bclosed s = true -> tget (threads s) (TCall i) = Some st ->
  exists cs s' v e, length cs <= 6 /\ own_steps i cs /\ lrun fixed calls s cs = Some s' /\
                    tget (threads s') (TCall i) = Some (CReturned v e) /\
                    (e = None -> in_hand s i).
Proof.
  intros Hreach Hb Ht.
  pose proof (lno_crash_lemma _ _ _ Hreach) as Hc.
  destruct (InvT_reachable calls s Hreach) as (HT & _ & _).
  pose proof (HT _ _ Ht) as Hk.
  (* the two-step tail shared by every path through the recover handler *)
  assert (Tail : forall s1 e1, crashed s1 = false -> tget (threads s1) (TCall i) = Some (SetErrMid e1 (KReturn e1)) ->
                 exists s2, lrun fixed calls s1 [(Run (TCall i), 0)] = Some s2 /\
                            tget (threads s2) (TCall i) = Some (CReturned zero (Some e1))).
  { intros s1 e1 Hc1 Ht1. destruct (caller_seterr_returns calls s1 i e1 e1 Hc1 Ht1) as (s2 & St & R).
    exists s2. simpl. rewrite St. auto. }
  destruct st; simpl in Hk; try discriminate.
  - (* CRegistered: the caller has not written its request yet *)
    assert (Step : lstep fixed calls s (Run (TCall i)) 0 = step_caller calls s i (CRegistered ent)).
    { unfold lstep. rewrite Hc, Ht. reflexivity. }
    unfold step_caller in Step.
    set (s0 := setT s (TWaiter i) (WStart ent)) in *.
    destruct (memN 0%N (cancelled s0)) eqn:Ec.
    + destruct (caller_panic_state calls s0 i (ECtx 0%N)) as (C1 & T1).
      destruct (Tail _ _ (eq_trans C1 Hc) T1) as (s2 & R2 & T2).
      exists [(Run (TCall i), 0); (Run (TCall i), 0)], s2, zero, (Some (ECtx 0%N)).
      split; [simpl; lia|]. split; [own|]. split; [|split; [exact T2|intros Hx; discriminate]].
      change [(Run (TCall i), 0); (Run (TCall i), 0)] with ([(Run (TCall i), 0)] ++ [(Run (TCall i), 0)]).
      erewrite lrun_app; [exact R2|]. simpl. rewrite Step. reflexivity.
    + destruct (take_fault s0 0) as [[x|] s1] eqn:Ef.
      * assert (Hc1 : crashed s1 = false) by (unfold take_fault in Ef; inversion Ef; subst; exact Hc).
        destruct (caller_panic_state calls s1 i (EInj x)) as (C1 & T1).
        destruct (Tail _ _ (eq_trans C1 Hc1) T1) as (s2 & R2 & T2).
        exists [(Run (TCall i), 0); (Run (TCall i), 0)], s2, zero, (Some (EInj x)).
        split; [simpl; lia|]. split; [own|]. split; [|split; [exact T2|intros Hx; discriminate]].
        change [(Run (TCall i), 0); (Run (TCall i), 0)] with ([(Run (TCall i), 0)] ++ [(Run (TCall i), 0)]).
        erewrite lrun_app; [exact R2|]. simpl. rewrite Step. reflexivity.
      * (* the request goes out; the caller blocks; its waiter finds the table closed *)
        set (s2 := with_ev (setT s1 (TCall i) CBlocked) (EvReqWritten i (c_arg (nth i calls dflt_call)) (c_closure (nth i calls dflt_call)))) in *.
        assert (R2 : lreachable fixed calls s2) by (eapply lreachable_step; [exact Hreach|exact Step]).
        assert (B2 : bclosed s2 = true) by (unfold take_fault in Ef; inversion Ef; subst; exact Hb).
        assert (T2 : tget (threads s2) (TCall i) = Some CBlocked) by (unfold s2; simpl; apply tget_tset_same).
        assert (W2 : tget (threads s2) (TWaiter i) = Some (WStart ent)).
        { unfold s2; simpl. rewrite tget_tset_other by discriminate.
          unfold take_fault in Ef; inversion Ef; subst. simpl. apply tget_tset_same. }
        destruct (inflight_call_returns_lemma calls s2 i R2 B2 T2) as (cs & s' & v & e & Hl & Ho & Hr & Hret & Hgen).
        exists ((Run (TCall i), 0) :: cs), s', v, e.
        split; [simpl; lia|]. split; [apply Forall_cons; [simpl; auto|exact Ho]|].
        split; [simpl; rewrite Step; exact Hr|]. split; [exact Hret|].
        intros He. destruct (Hgen He) as (x & Hx). rewrite W2 in Hx. discriminate.
  - (* CBlocked *)
    destruct (inflight_call_returns_lemma calls s i Hreach Hb Ht) as (cs & s' & v & e & Hl & Ho & Hr & Hret & Hgen).
    exists cs, s', v, e. split; [lia|]. split; [exact Ho|]. split; [exact Hr|]. split; [exact Hret|].
    intros He. left. exact (Hgen He).
  - (* CSelected *)
    destruct o as [r|].
    + destruct (caller_selected_returns calls s i r Hc Ht) as (cs & s' & v & e & Hl & Ho & Hr & Hret & Hgen & _).
      exists cs, s', v, e. split; [lia|]. split; [exact Ho|]. split; [exact Hr|]. split; [exact Hret|].
      intros He. right; left. destruct (Hgen He) as (x & ->). eauto.
    + (* the link-context branch of the select *)
      assert (Step : lstep fixed calls s (Run (TCall i)) 0 = Some (caller_panic calls s i (ECtx 0%N))).
      { unfold lstep. rewrite Hc, Ht. reflexivity. }
      destruct (caller_panic_state calls s i (ECtx 0%N)) as (C1 & T1).
      destruct (Tail _ _ (eq_trans C1 Hc) T1) as (s2 & R2 & T2).
      exists [(Run (TCall i), 0); (Run (TCall i), 0)], s2, zero, (Some (ECtx 0%N)).
      split; [simpl; lia|]. split; [own|]. split; [|split; [exact T2|intros Hx; discriminate]].
      change [(Run (TCall i), 0); (Run (TCall i), 0)] with ([(Run (TCall i), 0)] ++ [(Run (TCall i), 0)]).
      erewrite lrun_app; [exact R2|]. simpl. rewrite Step. reflexivity.
  - (* CReturned *)
    exists [], s, v, e. split; [simpl; lia|]. split; [apply Forall_nil|]. split; [reflexivity|]. split; [exact Ht|].
    intros ->. right; right. eauto.
  - (* inside the recover path *)
    destruct k as [|e'|]; try discriminate.
    destruct (caller_seterr_returns calls s i e e' Hc Ht) as (s2 & St & R).
    exists [(Run (TCall i), 0)], s2, zero, (Some e'). split; [simpl; lia|]. split; [own|].
    split; [simpl; rewrite St; reflexivity|]. split; [exact R|intros Hx; discriminate].
Qed.

(* and a call made on an ended link fails at once, whatever else is going on: it returns the
   'closed' error without registering, writing or REPORTING anything (a failing marshal of its
   arguments is the only thing it can still report) *)
Lemma call_after_end_fails_lemma calls s i cs0 :
  lreachable fixed calls s -> bclosed s = true -> tget (threads s) (TCall i) = None -> nth_error calls i = Some cs0 ->
  exists s1, lstep fixed calls s (Env (EStart i)) 0 = Some s1 /\ tbl s1 = [] /\
             ((exists x, tget (threads s1) (TCall i) = Some (SetErrMid (EInj x) (KReturn (EInj x))) /\ evs s1 = evs s) \/
              (tget (threads s1) (TCall i) = Some (CReturned zero (Some EClosed)) /\
               evs s1 = EvReturn i zero (Some EClosed) :: evs s /\ fatal s1 = fatal s)).
Proof.
  intros Hreach Hb Ht Hn.
  pose proof (lno_crash_lemma _ _ _ Hreach) as Hc.
  assert (Step : lstep fixed calls s (Env (EStart i)) 0 = step_env fixed calls s (EStart i)) by (unfold lstep; rewrite Hc; reflexivity).
  rewrite Step. unfold step_env. rewrite Ht, Hn.
  set (s0 := if c_closure cs0 then with_closures s (i :: closures s) else s).
  assert (B0 : bclosed s0 = true) by (unfold s0; destruct (c_closure cs0); exact Hb).
  assert (E0 : evs s0 = evs s) by (unfold s0; destruct (c_closure cs0); reflexivity).
  assert (F0 : fatal s0 = fatal s) by (unfold s0; destruct (c_closure cs0); reflexivity).
  assert (TB : tbl s = []) by (destruct (InvT_reachable calls s Hreach) as (_ & _ & K); auto).
  assert (TB0 : tbl s0 = []) by (unfold s0; destruct (c_closure cs0); exact TB).
  destruct (take_fault s0 2) as [[x|] s1] eqn:Ef.
  - eexists. split; [reflexivity|]. split; [reflexivity|]. left. exists x.
    destruct (caller_panic_state calls s1 i (EInj x)) as (_ & T1).
    split; [exact T1|]. unfold take_fault in Ef; inversion Ef; subst. exact E0.
  - assert (B1 : bclosed s1 = true) by (unfold take_fault in Ef; inversion Ef; subst; exact B0).
    rewrite B1. simpl report_closed. cbv iota. eexists. split; [reflexivity|].
    unfold take_fault in Ef; inversion Ef; subst. split; [exact TB0|]. right.
    split; [unfold caller_return; simpl; apply tget_tset_same|]. split; [simpl; rewrite E0; reflexivity|exact F0].
Qed.

(* C04: a started call whose own context is cancelled returns after a bounded number of its own
   steps wherever it currently is, on a healthy or an ended link *)
Lemma cancelled_started_call_returns_lemma calls s i st :
  lreachable fixed calls s -> memN (c_ctx (nth i calls dflt_call)) (cancelled s) = true ->
  tget (threads s) (TCall i) = Some st ->
  exists cs s' v e, length cs <= 6 /\ own_steps i cs /\ lrun fixed calls s cs = Some s' /\
                    tget (threads s') (TCall i) = Some (CReturned v e).
Proof.
  intros Hreach Hcn Ht.
  pose proof (lno_crash_lemma _ _ _ Hreach) as Hc.
  destruct (InvT_reachable calls s Hreach) as (HT & _ & _).
  pose proof (HT _ _ Ht) as Hk.
  assert (Tail : forall s1 e1, crashed s1 = false -> tget (threads s1) (TCall i) = Some (SetErrMid e1 (KReturn e1)) ->
                 exists s2, lrun fixed calls s1 [(Run (TCall i), 0)] = Some s2 /\
                            tget (threads s2) (TCall i) = Some (CReturned zero (Some e1))).
  { intros s1 e1 Hc1 Ht1. destruct (caller_seterr_returns calls s1 i e1 e1 Hc1 Ht1) as (s2 & St & R).
    exists s2. simpl. rewrite St. auto. }
  destruct st; simpl in Hk; try discriminate.
  - assert (Step : lstep fixed calls s (Run (TCall i)) 0 = step_caller calls s i (CRegistered ent)).
    { unfold lstep. rewrite Hc, Ht. reflexivity. }
    unfold step_caller in Step.
    set (s0 := setT s (TWaiter i) (WStart ent)) in *.
    destruct (memN 0%N (cancelled s0)) eqn:Ec.
    + destruct (caller_panic_state calls s0 i (ECtx 0%N)) as (C1 & T1).
      destruct (Tail _ _ (eq_trans C1 Hc) T1) as (s2 & R2 & T2).
      exists [(Run (TCall i), 0); (Run (TCall i), 0)], s2, zero, (Some (ECtx 0%N)).
      split; [simpl; lia|]. split; [own|]. split; [|exact T2].
      change [(Run (TCall i), 0); (Run (TCall i), 0)] with ([(Run (TCall i), 0)] ++ [(Run (TCall i), 0)]).
      erewrite lrun_app; [exact R2|]. simpl. rewrite Step. reflexivity.
    + destruct (take_fault s0 0) as [[x|] s1] eqn:Ef.
      * assert (Hc1 : crashed s1 = false) by (unfold take_fault in Ef; inversion Ef; subst; exact Hc).
        destruct (caller_panic_state calls s1 i (EInj x)) as (C1 & T1).
        destruct (Tail _ _ (eq_trans C1 Hc1) T1) as (s2 & R2 & T2).
        exists [(Run (TCall i), 0); (Run (TCall i), 0)], s2, zero, (Some (EInj x)).
        split; [simpl; lia|]. split; [own|]. split; [|exact T2].
        change [(Run (TCall i), 0); (Run (TCall i), 0)] with ([(Run (TCall i), 0)] ++ [(Run (TCall i), 0)]).
        erewrite lrun_app; [exact R2|]. simpl. rewrite Step. reflexivity.
      * set (s2 := with_ev (setT s1 (TCall i) CBlocked) (EvReqWritten i (c_arg (nth i calls dflt_call)) (c_closure (nth i calls dflt_call)))) in *.
        assert (R2 : lreachable fixed calls s2) by (eapply lreachable_step; [exact Hreach|exact Step]).
        assert (B2 : memN (c_ctx (nth i calls dflt_call)) (cancelled s2) = true) by (unfold take_fault in Ef; inversion Ef; subst; exact Hcn).
        assert (T2 : tget (threads s2) (TCall i) = Some CBlocked) by (unfold s2; simpl; apply tget_tset_same).
        destruct (cancelled_call_returns_lemma calls s2 i R2 B2 T2) as (cs & s' & v & e & Hl & Ho & Hr & Hret & _).
        exists ((Run (TCall i), 0) :: cs), s', v, e.
        split; [simpl; lia|]. split; [apply Forall_cons; [simpl; auto|exact Ho]|].
        split; [simpl; rewrite Step; exact Hr|exact Hret].
  - destruct (cancelled_call_returns_lemma calls s i Hreach Hcn Ht) as (cs & s' & v & e & Hl & Ho & Hr & Hret & _).
    exists cs, s', v, e. split; [lia|]. auto.
  - destruct o as [r|].
    + destruct (caller_selected_returns calls s i r Hc Ht) as (cs & s' & v & e & Hl & Ho & Hr & Hret & _).
      exists cs, s', v, e. split; [lia|]. auto.
    + assert (Step : lstep fixed calls s (Run (TCall i)) 0 = Some (caller_panic calls s i (ECtx 0%N))).
      { unfold lstep. rewrite Hc, Ht. reflexivity. }
      destruct (caller_panic_state calls s i (ECtx 0%N)) as (C1 & T1).
      destruct (Tail _ _ (eq_trans C1 Hc) T1) as (s2 & R2 & T2).
      exists [(Run (TCall i), 0); (Run (TCall i), 0)], s2, zero, (Some (ECtx 0%N)).
      split; [simpl; lia|]. split; [own|]. split; [|exact T2].
      change [(Run (TCall i), 0); (Run (TCall i), 0)] with ([(Run (TCall i), 0)] ++ [(Run (TCall i), 0)]).
      erewrite lrun_app; [exact R2|]. simpl. rewrite Step. reflexivity.
  - exists [], s, v, e. split; [simpl; lia|]. split; [apply Forall_nil|]. split; [reflexivity|exact Ht].
  - destruct k as [|e'|]; try discriminate.
    destruct (caller_seterr_returns calls s i e e' Hc Ht) as (s2 & St & R).
    exists [(Run (TCall i), 0)], s2, zero, (Some e'). split; [simpl; lia|]. split; [own|].
    split; [simpl; rewrite St; reflexivity|exact R].
Qed.
