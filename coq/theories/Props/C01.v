From Verif Require Import Base.
Theorem placeholder : True. Proof. exact I. Qed.
Print Assumptions placeholder.
