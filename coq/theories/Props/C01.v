(* C01 — each call gets its own handler's result under any concurrency or reordering.
   Model: Sys.v (message level: any number of calls in flight, network = bag of frames, any
   delivery order and delay).  The per-endpoint facts Sys.v builds on (fresh id per call, waiter
   registered before the request is written, response handed only to the waiter of its id, one
   handler goroutine per request) are the steps of Link.v, tied to registry.go by the window-level
   correspondence (C03..C05, C16 checks).
   At the goroutine level (Link.v, LinkInvR.v) [response_reaches_only_its_caller] proves the demultiplexing
   itself for every schedule: whatever a call returns as coming from the peer (nil error, or an
   error built from a response) is the payload of a response frame that carried that call's own
   id, whatever else is in flight and in whatever order frames arrive. *)
From Verif Require Import Base Link Sys LinkInvR LinkInvQ LinkEvents Pair PairProofs Duo DuoProofs.

Theorem each_call_own_result :
  forall (h : N -> N -> N) s id v,
    sreachable h s -> In (id, v) (sreturned s) ->
    exists c, nth_error (scalls s) id = Some c /\ v = h (sc_fn c) (sc_arg c) /\
              In (id, sc_fn c, sc_arg c) (sinvoked s) /\
              (forall fn arg, In (id, fn, arg) (sinvoked s) -> fn = sc_fn c /\ arg = sc_arg c) /\
              NoDup (map rid (sinvoked s)).
Proof. exact each_call_own_result_lemma. Qed.
Print Assumptions each_call_own_result.

(* Non-vacuity: three calls in flight, requests delivered in the order 2,0,1, responses 1,0,2. *)
Example reordered_run :
  exists s, sreachable (fun fn arg => (fn * 100 + arg)%N) s /\
            sreturned s = [(1, 307%N); (0, 204%N); (2, 105%N)].
Proof.
  eexists. split.
  - exists [ACall 2 4; ACall 3 7; ACall 1 5; ADeliverReq 0; ADeliverReq 1; ADeliverReq 0;
            ADeliverRes 2; ADeliverRes 1; ADeliverRes 0]%N.
    vm_compute. reflexivity.
  - reflexivity.
Qed.

Theorem response_reaches_only_its_caller :
  forall calls cs s i v r oe,
    lrun fixed calls linit cs = Some s ->
    In (EvReturn i v r) (evs s) -> genuine r = Some oe ->
    exists x, In (N.of_nat i, x, oe) (resp_of cs) /\ v = (if nres1 calls i then zero else x).
Proof. exact response_routing_lemma. Qed.
Print Assumptions response_reaches_only_its_caller.

Theorem response_routing_reordered :
  exists s, lrun fixed rr_calls linit rr_schedule = Some s /\
            In (EvReturn 0 70%N None) (evs s) /\ In (EvReturn 1 71%N None) (evs s) /\
            In (EvReturn 2 zero (Some (EApp 5%N))) (evs s).
Proof. exact response_routing_example. Qed.
Print Assumptions response_routing_reordered.

(* callee half, goroutine level, every schedule: each invocation is for a request the peer sent and
   with that request's function and argument; no request is invoked or answered twice; a response
   written for request n is the result of the invocation made for request n *)
Theorem one_invocation_per_request_own_arguments :
  forall calls cs s,
    lrun fixed calls linit cs = Some s ->
    (forall n f arg, In (EvInvoked n f arg) (evs s) -> In (f, arg) (req_of cs)) /\
    NoDup (inv_ids (evs s)) /\
    (forall n v e, In (EvResWritten n v e) (evs s) ->
       exists f arg, In (EvInvoked n f arg) (evs s) /\ handler_result f arg = Some (v, e)) /\
    NoDup (res_ids (evs s)).
Proof. exact callee_side_lemma. Qed.
Print Assumptions one_invocation_per_request_own_arguments.

Theorem callee_side_reordered :
  exists s, lrun fixed [] linit cq_schedule = Some s /\
            In (EvResWritten 0 7%N None) (evs s) /\ In (EvResWritten 1 8%N (Some 3%N)) (evs s) /\
            In (EvResWritten 2 zero None) (evs s) /\ inv_ids (evs s) = [0; 2; 1].
Proof. exact callee_side_example. Qed.
Print Assumptions callee_side_reordered.

(* ---- the two halves composed: two endpoints (each an instance of Link.v, with its own calls,
   schedule, faults and cancellations) joined by a network that may delay, reorder, duplicate and
   drop frames but not forge them (Pair.v).  For EVERY run of the closed system: *)

(* every request frame a call writes carries that call's own argument *)
Theorem request_carries_own_argument :
  forall calls cs s i arg cl,
    lrun fixed calls linit cs = Some s -> In (EvReqWritten i arg cl) (evs s) ->
    arg = c_arg (nth i calls dflt_call) /\ cl = c_closure (nth i calls dflt_call).
Proof. exact request_carries_own_argument_lemma. Qed.
Print Assumptions request_carries_own_argument.

(* whatever a call of A returns as coming from the peer is the result of an invocation that B made
   of the function this call named, with this call's own argument, for a frame this call wrote *)
Theorem result_is_own_handlers_end_to_end :
  forall (fn : nat -> fnkind) callsA callsB l p i v r oe,
    prun fn callsA callsB pinit l = Some p ->
    In (EvReturn i v r) (evs (pa p)) -> genuine r = Some oe ->
    exists n x,
      nth_error (dreq p) n = Some i /\
      In (EvInvoked n (fn i) (c_arg (nth i callsA dflt_call))) (evs (pb p)) /\
      handler_result (fn i) (c_arg (nth i callsA dflt_call)) = Some (x, oe) /\
      v = (if nres1 callsA i then zero else x).
Proof. exact pair_result_is_own_handlers_lemma. Qed.
Print Assumptions result_is_own_handlers_end_to_end.

(* B invokes an exposed function only for request frames A wrote, with the function and argument of
   the call that wrote the frame, and at most once per accepted frame; at most one response each *)
Theorem invocations_are_requested_end_to_end :
  forall (fn : nat -> fnkind) callsA callsB l p,
    prun fn callsA callsB pinit l = Some p ->
    (forall n f arg, In (EvInvoked n f arg) (evs (pb p)) ->
       exists i, nth_error (dreq p) n = Some i /\ f = fn i /\ arg = c_arg (nth i callsA dflt_call) /\
                 In (EvReqWritten i arg (c_closure (nth i callsA dflt_call))) (evs (pa p))) /\
    NoDup (inv_ids (evs (pb p))) /\ NoDup (res_ids (evs (pb p))).
Proof. exact pair_invocations_are_requested_lemma. Qed.
Print Assumptions invocations_are_requested_end_to_end.

(* non-vacuity: two calls in flight, requests delivered in the opposite order, one response
   delivered twice; each call returns its own handler's result *)
Theorem end_to_end_reordered_duplicated :
  exists p, prun px_fn px_calls [] pinit px_sched = Some p /\
            In (EvReturn 0 10%N None) (evs (pa p)) /\ In (EvReturn 1 11%N (Some (EApp 5%N))) (evs (pa p)) /\
            dreq p = [1; 0].
Proof. exact pair_example. Qed.
Print Assumptions end_to_end_reordered_duplicated.

(* both directions at once (Duo.v: requests and responses of both directions go through the network;
   every run projects onto a run of Pair.v for either direction): in one and the same run, each
   side's calls get their own handlers' results from the other side *)
Theorem both_directions_end_to_end :
  forall (fnA fnB : nat -> fnkind) callsA callsB l d,
    drun fnA fnB callsA callsB dinit l = Some d ->
    (forall i v r oe, In (EvReturn i v r) (evs (da d)) -> genuine r = Some oe ->
       exists n x, nth_error (dAB d) n = Some i /\
                   In (EvInvoked n (fnA i) (c_arg (nth i callsA dflt_call))) (evs (db d)) /\
                   handler_result (fnA i) (c_arg (nth i callsA dflt_call)) = Some (x, oe) /\
                   v = (if nres1 callsA i then zero else x)) /\
    (forall j v r oe, In (EvReturn j v r) (evs (db d)) -> genuine r = Some oe ->
       exists m x, nth_error (dBA d) m = Some j /\
                   In (EvInvoked m (fnB j) (c_arg (nth j callsB dflt_call))) (evs (da d)) /\
                   handler_result (fnB j) (c_arg (nth j callsB dflt_call)) = Some (x, oe) /\
                   v = (if nres1 callsB j then zero else x)).
Proof. exact duo_both_directions_lemma. Qed.
Print Assumptions both_directions_end_to_end.

(* non-vacuity: A calls B; while B's handler for that call is inside application code, B calls A;
   both calls return their own handler's result *)
Theorem both_directions_nested :
  exists d, drun du_fnA du_fnB du_callsA du_callsB dinit du_sched = Some d /\
            In (EvReturn 0 40%N (Some (EApp 6%N))) (evs (db d)) /\
            In (EvReturn 0 30%N None) (evs (da d)) /\ dAB d = [0] /\ dBA d = [0].
Proof. exact duo_example. Qed.
Print Assumptions both_directions_nested.
