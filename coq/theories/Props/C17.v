(* C17 — wire frames follow the documented protocol.  The JSON field names are re-extracted from
   go/pkg/utils/messages.go and registry.go on every run (translator bin/vlib/wiretags.py ->
   work/C17/WireTags.v); the obligation [extracted = documented] is re-checked there, and with it
   the theorems below apply to the code's own tags. *)
From Coq Require Import String.
From Verif Require Import Base Wire WireProofs.
Open Scope string_scope.

Theorem request_shape :
  forall id fn args,
    keys (build_request documented id fn args) = ["call"; "function"; "args"] /\
    dlookup "call" (build_request documented id fn args) = Some (JStr id) /\
    dlookup "function" (build_request documented id fn args) = Some (JStr fn) /\
    exists l, dlookup "args" (build_request documented id fn args) = Some (JArr l) /\ length l = length args.
Proof. exact request_shape_lemma. Qed.
Print Assumptions request_shape.

Theorem response_shape :
  forall id v e,
    keys (build_response documented id v e) = ["call"; "value"; "err"] /\
    dlookup "call" (build_response documented id v e) = Some (JStr id) /\
    dlookup "value" (build_response documented id v e) = Some (JPayload v) /\
    (forall m, e = Some m -> m <> "" -> dlookup "err" (build_response documented id v e) = Some (JStr m) /\ m <> "") /\
    (e = None -> dlookup "err" (build_response documented id v e) = Some (JStr "")).
Proof. exact response_shape_lemma. Qed.
Print Assumptions response_shape.

Theorem shapes_follow_from_tags :
  forall t id fn args,
    t = documented -> keys (build_request t id fn args) = ["call"; "function"; "args"] /\
                      (args = [] -> dlookup "args" (build_request t id fn args) = Some (JArr [])).
Proof. exact shapes_for_extracted. Qed.
Print Assumptions shapes_follow_from_tags.
