(* C11 — a closure argument runs on the caller's side with the callee's arguments.
   Each proxy invocation is an ordinary call of the closure entry point (C01's theorem applies to
   it); what is specific to closures is the conversion of the generically decoded arguments to
   the closure's parameter types (Convert.v).  Proved: the conversion is total on the simple types
   of the property (numbers, booleans, strings, slices of those — nil, empty and nested included)
   and value preserving on integers. *)
From Verif Require Import Base Convert ConvertProofs.
From Coq Require Import ZArith.

Theorem convert_simple_total :
  forall src t, shaped src t = true -> exists y, convert_value fixed src t = COk y.
Proof. exact convert_total_lemma. Qed.
Print Assumptions convert_simple_total.

Theorem convert_int_preserved :
  forall k z, convert_value fixed (GNum k (2 * z)) TInt = COk (VInt z).
Proof. exact convert_int_identity. Qed.
Print Assumptions convert_int_preserved.

Theorem nil_slice_is_accepted :
  forall t, convert_value fixed GNil (TSlice t) = COk (VSlice t []).
Proof. exact convert_nil_slice. Qed.
Print Assumptions nil_slice_is_accepted.

(* the tree as found panics on a nil slice argument (D7), which terminates the link *)
Theorem D7_refuted : exists src t, shaped src t = true /\ convert_value legacy src t = CPanic.
Proof. exists GNil, (TSlice TInt). split; reflexivity. Qed.
Print Assumptions D7_refuted.
