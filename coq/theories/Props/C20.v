(* C20 — no data races inside panrpc under concurrent use (PARTIAL: lock-set discipline).
   If every pair of conflicting access sites of the table shares a mutex or is ordered by a
   publication edge, then no state of the machine in which the threads respect the table has a
   race.  The table is re-extracted from the sources on every run (bin/vlib/locksets.py ->
   work/C20/Accesses.v) and [discipline accesses = true] is re-checked there by vm_compute.
   Not covered: completeness of the extractor's notion of shared location, channel-internal
   synchronisation (the Go runtime's), the Go memory model itself. *)
From Verif Require Import Base Lockset LocksetProofs.

Theorem lockset_sound :
  forall tbl s, discipline tbl = true -> respects tbl s -> ~ race tbl s.
Proof. exact lockset_sound_lemma. Qed.
Print Assumptions lockset_sound.

(* non-vacuity: an unguarded writer and a reader of one location are rejected by the discipline *)
Example unguarded_rejected : discipline [mkAcc 0 true [] false; mkAcc 0 false [1] false] = false.
Proof. reflexivity. Qed.
Example guarded_accepted : discipline [mkAcc 0 true [1] false; mkAcc 0 false [1; 2] false] = true.
Proof. reflexivity. Qed.
