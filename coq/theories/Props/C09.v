(* C09 — arguments and results arrive unchanged, in order, for every serializable type.
   The serializer is a section parameter (marshal / unmarshal into a declared type): value
   fidelity is the serializer's own round trip; what is proved is panrpc's plumbing for every
   arity: the context is never transmitted, every other argument is encoded separately in order,
   and argument i of the frame is decoded into parameter type i+1 (index arithmetic modelled
   literally: an off-by-one on either side breaks the proof). *)
From Verif Require Import Base Wire WireProofs.

Theorem args_roundtrip :
  forall (value payload ty : Type) (marshal : value -> payload) (unmarshal : payload -> ty -> value)
         (dflt : payload) (ctx : carg value) (args : list (carg value)) (ptys : list (ptype ty)),
    length ptys = length args ->
    handler_args value payload ty unmarshal dflt (PCtx ty :: ptys)
                 (request_args value payload marshal dflt (ctx :: args))
    = DCtx _ _ :: spec_args value payload ty marshal unmarshal dflt args ptys.
Proof. exact args_roundtrip_lemma. Qed.
Print Assumptions args_roundtrip.

Theorem context_not_transmitted :
  forall (value payload : Type) (marshal : value -> payload) (dflt : payload) ctx args,
    length (request_args value payload marshal dflt (ctx :: args)) = length args.
Proof. exact request_args_length. Qed.
Print Assumptions context_not_transmitted.

(* non-vacuity: three arguments, one of them a function *)
Example three_args :
  handler_args nat nat nat (fun p t => p + t) 0 [PCtx nat; PData nat 100; PFunc nat; PData nat 200]
               (request_args nat nat (fun v => v * 2) 0 [CCtx nat; CData nat 1; CFunc nat 7; CData nat 3])
  = [DCtx nat nat; DVal nat nat 102; DProxy nat nat 14; DVal nat nat 206].
Proof. reflexivity. Qed.
