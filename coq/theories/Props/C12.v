(* C12 — closures live exactly as long as the call that passed them. *)
From Verif Require Import Base Link LinkProofs LinkInvB LinkInvC Closure.

(* every way a call leaves (normal return, error, cancel, link end, panic path) releases its closure *)
Theorem closure_released_on_return :
  forall s i v e, ~ In i (closures (caller_return s i v e)).
Proof.
  intros s i v e Hin. unfold caller_return, with_ev, setT, with_threads, with_closures in Hin. simpl in Hin.
  unfold remove_nat in Hin. apply filter_In in Hin as [_ H]. rewrite Nat.eqb_refl in H. discriminate.
Qed.
Print Assumptions closure_released_on_return.

Theorem closure_released_on_panic_path :
  forall calls s i e, ~ In i (closures (caller_panic calls s i e)).
Proof.
  intros calls s i e Hin. unfold caller_panic, begin_seterr, wake, setT, do_close, with_threads, with_closures in Hin.
  simpl in Hin. unfold remove_nat in Hin. apply filter_In in Hin as [_ H]. rewrite Nat.eqb_refl in H. discriminate.
Qed.
Print Assumptions closure_released_on_panic_path.

(* releasing one call's closure leaves the registrations of the other calls alone *)
Theorem release_is_local :
  forall s i j v e, i <> j -> In j (closures s) -> In j (closures (caller_return s i v e)).
Proof.
  intros s i j v e Hne Hin. unfold caller_return; simpl. unfold remove_nat. apply filter_In. split; auto.
  apply negb_true_iff. apply Nat.eqb_neq. auto.
Qed.
Print Assumptions release_is_local.

(* after the release an invocation finds nothing and runs nothing *)
Theorem late_invocation_rejected :
  forall t id, call_closure (release t id) id = CDoesNotExist.
Proof. intros t id. unfold call_closure, release. rewrite lookupN_removeN_same. reflexivity. Qed.
Print Assumptions late_invocation_rejected.

Theorem other_closures_stay_invocable :
  forall t id id', id <> id' -> call_closure (release t id) id' = call_closure t id'.
Proof. intros t id id' H. unfold call_closure, release. rewrite lookupN_removeN_other; auto. Qed.
Print Assumptions other_closures_stay_invocable.

(* over ALL reachable states: the table holds exactly the closures of the closure-passing calls
   that are in flight (registered and not yet returned / on their panic path), without duplicates *)
Theorem closure_table_exact :
  forall calls s, lreachable fixed calls s ->
    NoDup (closures s) /\
    forall i, In i (closures s) <-> (holding (tget (threads s) (TCall i)) = true /\ passes calls i = true).
Proof. exact InvC_reachable. Qed.
Print Assumptions closure_table_exact.

(* hence: no call in flight => no closure registered *)
Theorem closures_empty_when_idle :
  forall calls s, lreachable fixed calls s ->
    (forall i, holding (tget (threads s) (TCall i)) = false) -> closures s = [].
Proof. exact closures_empty_when_idle_lemma. Qed.
Print Assumptions closures_empty_when_idle.
