(* C10 — handler errors reach the caller as errors with the same message; nil stays nil. *)
From Verif Require Import Base Wire WireProofs Link LinkProofs LinkHealthy.

(* every message with a non-blank character (strings.TrimSpace semantics over unicode.IsSpace)
   is reconstructed verbatim on the caller *)
Theorem error_text_preserved :
  forall m c, In c m -> is_space c = false -> caller_err (response_err (Some m)) = Some m.
Proof. intros m c Hin Hc. apply error_text_preserved_lemma. eapply nonblank_char_not_blank; eauto. Qed.
Print Assumptions error_text_preserved.

Theorem nil_stays_nil : caller_err (response_err None) = None.
Proof. exact nil_stays_nil_lemma. Qed.
Print Assumptions nil_stays_nil.

(* two-result functions: the value accompanies the error, and the step neither touches the fatal
   slot nor reports anything (an application-level error never terminates the link) *)
Theorem value_accompanies_error :
  forall calls s i x m,
    c_nres (nth i calls dflt_call) = 2 -> f_unmarshal (flt s) = None ->
    exists s', step_caller calls s i (CSelected (Some (WResp x (Some m)))) = Some s' /\
               tget (threads s') (TCall i) = Some (CReturned x (Some (EApp m))) /\
               fatal s' = fatal s /\ bclosed s' = bclosed s /\
               evs s' = EvReturn i x (Some (EApp m)) :: evs s.
Proof.
  intros calls s i x m Hn Hf. unfold step_caller. rewrite Hn. simpl.
  unfold take_fault. rewrite Hf. simpl.
  eexists; split; [reflexivity|]. unfold caller_return; simpl.
  split; [apply tget_tset_same|]. repeat split.
Qed.
Print Assumptions value_accompanies_error.

(* last clause, over whole runs: an application-level error never terminates the link.  Handlers
   that return errors (FFail, FNotifyErr) and calls that get application errors back are benign
   choices; in every benign run the link is still up and nothing was reported (the same theorem as
   C16's first clause; the witness run contains both kinds of application error) *)
Theorem application_errors_never_end_the_link :
  forall calls cs s,
    lrun fixed calls linit cs = Some s -> forallb (fun c => benign (fst c)) cs = true ->
    bclosed s = false /\ fatal s = None /\
    (forall e, ~ In (EvReport e) (evs s)) /\ (forall e, ~ In (EvLinkReturn e) (evs s)) /\
    (tget (threads s) TLink = Some LBeforeRead \/ tget (threads s) TLink = Some LWaiting).
Proof. exact healthy_link_stays_up_lemma. Qed.
Print Assumptions application_errors_never_end_the_link.

Theorem application_errors_are_benign :
  forall m arg, benign (Env (EDeliverReq (FFail m) arg)) = true /\ benign (Env (EDeliverReq (FNotifyErr m) arg)) = true /\
                forall id x, benign (Env (EDeliverRes id x (Some m))) = true.
Proof. intros; repeat split. Qed.
Print Assumptions application_errors_are_benign.
