(* C15 — a finished link leaves nothing behind.
   Proved here: closing the pending-call table empties it and cancels every entry; in the repaired
   tree a woken waiter can always hand over its result and proceed to free its entry, whatever the
   caller did (the D2 leak is impossible); the tree as found leaves the waiter blocked forever.
   The global statement is [teardown_leaves_nothing]: in EVERY reachable state of the link model
   (any schedule, fault sequence, peer behaviour, any number of calls in flight) in which the link
   context is cancelled, no reader loop still sits in a read and no goroutine can run on by itself,
   every goroutine other than the application's own (Link's caller; handlers still inside
   application code) has exited, the pending-call table and the closure table are empty, no call is
   in flight and the remote is no longer enumerated.  [teardown_premises_met] exhibits such a state
   reached with two calls in flight, a gated handler and a late response.
   Goroutine count / memory of the real process are observed by the teardown monitor of the run. *)
From Verif Require Import Base Link LinkProofs LinkInvC LinkInvT.

Theorem close_empties_table :
  forall s, tbl (do_close s) = [] /\ bclosed (do_close s) = true /\
            Forall (fun en => le_cancelled en = true) (ents (do_close s)).
Proof.
  intros s. repeat split. unfold do_close; simpl. apply Forall_forall. intros x Hin.
  apply in_map_iff in Hin as (y & <- & _). reflexivity.
Qed.
Print Assumptions close_empties_table.

Theorem waiter_can_always_deposit :
  forall calls s i r,
    exists s', step_waiter fixed calls s i (WWoke r) 0 = Some s' /\
               tget (threads s') (TWaiter i) = Some WDeposited.
Proof.
  intros calls s i r. unfold step_waiter, only0.
  destruct (tget (threads s) (TCall i)) as [[]|]; simpl;
    (eexists; split; [reflexivity|]); unfold setT; simpl; apply tget_tset_same.
Qed.
Print Assumptions waiter_can_always_deposit.

Theorem waiter_frees_its_entry :
  forall calls s i,
    exists s', step_waiter fixed calls s i WDeposited 0 = Some s' /\
               tget (threads s') (TWaiter i) = Some Finished /\
               lookupN (N.of_nat i) (tbl s') = None.
Proof.
  intros calls s i. unfold step_waiter, only0. eexists; split; [reflexivity|].
  unfold wake; simpl. split.
  - rewrite tget_map_wake_gen. unfold setT; simpl. rewrite tget_tset_same. reflexivity.
  - unfold do_free. destruct (lookupN (N.of_nat i) (tbl s)) eqn:E; simpl; [apply lookupN_removeN_same|exact E].
Qed.
Print Assumptions waiter_frees_its_entry.

(* D2: in the tree as found the waiter of a call that left through the link-context branch blocks
   forever on the unbuffered result channel *)
Theorem D2_refuted :
  exists calls cs s r,
    lrun legacy calls linit cs = Some s /\ tget (threads s) (TWaiter 0) = Some (WDepositBlocked r) /\
    (forall b, step_waiter legacy calls s 0 (WDepositBlocked r) b = None).
Proof.
  exists [mkCall 1 2 false 10],
         [(Run TSetup, 0); (Env (EStart 0), 0); (Run (TCall 0), 0); (Run (TWaiter 0), 0); (Env (ECancel 0%N), 0);
          (Run (TCall 0), 0); (Env (ECancel 1%N), 0); (Run (TWaiter 0), 0)].
  eexists. eexists. split; [vm_compute; reflexivity|]. split; [reflexivity|]. intros b. reflexivity.
Qed.
Print Assumptions D2_refuted.

(* the global statement, over every reachable state *)
Theorem teardown_leaves_nothing :
  forall calls s,
    lreachable fixed calls s ->
    memN 0%N (cancelled s) = true ->
    reads_failed s ->
    quiescent s ->
    (forall t st, tget (threads s) t = Some st -> t <> TLink -> app_code st = true \/ status_of st = LDone) /\
    tbl s = [] /\ bclosed s = true /\
    (forall i, holding (tget (threads s) (TCall i)) = false) /\ closures s = [] /\
    remotes s = 0.
Proof. exact teardown_clean_lemma. Qed.
Print Assumptions teardown_leaves_nothing.

Theorem teardown_premises_are_met :
  exists s, lrun fixed td_calls linit td_schedule = Some s /\
            memN 0%N (cancelled s) = true /\ reads_failed s /\ quiescent s /\
            tget (threads s) (THandler 0) = Some (HGate 5%N) /\
            tget (threads s) (TCall 0) <> None /\ tget (threads s) (TCall 1) <> None /\
            tget (threads s) TLink = Some LReturned.
Proof. exact teardown_premises_met. Qed.
Print Assumptions teardown_premises_are_met.
