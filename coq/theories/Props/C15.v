(* C15 — a finished link leaves nothing behind.
   Proved here: closing the pending-call table empties it and cancels every entry; in the repaired
   tree a woken waiter can always hand over its result and proceed to free its entry, whatever the
   caller did (the D2 leak is impossible); the tree as found leaves the waiter blocked forever.
   The global statement is [teardown_leaves_nothing]: in EVERY reachable state of the link model
   (any schedule, fault sequence, peer behaviour, any number of calls in flight) in which the link
   context is cancelled, no reader loop still sits in a read and no goroutine can run on by itself,
   every goroutine other than the application's own (Link's caller; handlers still inside
   application code) has exited, the pending-call table and the closure table are empty, no call is
   in flight and the remote is no longer enumerated.  [teardown_premises_met] exhibits such a state
   reached with two calls in flight, a gated handler and a late response.
   Goroutine count / memory of the real process are observed by the teardown monitor of the run. *)
From Verif Require Import Base Link LinkProofs LinkInvC LinkInvT Stream StreamG StreamGProofs.

Theorem close_empties_table :
  forall s, tbl (do_close s) = [] /\ bclosed (do_close s) = true /\
            Forall (fun en => le_cancelled en = true) (ents (do_close s)).
Proof.
  intros s. repeat split. unfold do_close; simpl. apply Forall_forall. intros x Hin.
  apply in_map_iff in Hin as (y & <- & _). reflexivity.
Qed.
Print Assumptions close_empties_table.

Theorem waiter_can_always_deposit :
  forall calls s i r,
    exists s', step_waiter fixed calls s i (WWoke r) 0 = Some s' /\
               tget (threads s') (TWaiter i) = Some WDeposited.
Proof.
  intros calls s i r. unfold step_waiter, only0.
  destruct (tget (threads s) (TCall i)) as [[]|]; simpl;
    (eexists; split; [reflexivity|]); unfold setT; simpl; apply tget_tset_same.
Qed.
Print Assumptions waiter_can_always_deposit.

Theorem waiter_frees_its_entry :
  forall calls s i,
    exists s', step_waiter fixed calls s i WDeposited 0 = Some s' /\
               tget (threads s') (TWaiter i) = Some Finished /\
               lookupN (N.of_nat i) (tbl s') = None.
Proof.
  intros calls s i. unfold step_waiter, only0. eexists; split; [reflexivity|].
  unfold wake; simpl. split.
  - rewrite tget_map_wake_gen. unfold setT; simpl. rewrite tget_tset_same. reflexivity.
  - unfold do_free. destruct (lookupN (N.of_nat i) (tbl s)) eqn:E; simpl; [apply lookupN_removeN_same|exact E].
Qed.
Print Assumptions waiter_frees_its_entry.

(* D2: in the tree as found the waiter of a call that left through the link-context branch blocks
   forever on the unbuffered result channel *)
Theorem D2_refuted :
  exists calls cs s r,
    lrun legacy calls linit cs = Some s /\ tget (threads s) (TWaiter 0) = Some (WDepositBlocked r) /\
    (forall b, step_waiter legacy calls s 0 (WDepositBlocked r) b = None).
Proof.
  exists [mkCall 1 2 false 10],
         [(Run TSetup, 0); (Env (EStart 0), 0); (Run (TCall 0), 0); (Run (TWaiter 0), 0); (Env (ECancel 0%N), 0);
          (Run (TCall 0), 0); (Env (ECancel 1%N), 0); (Run (TWaiter 0), 0)].
  eexists. eexists. split; [vm_compute; reflexivity|]. split; [reflexivity|]. intros b. reflexivity.
Qed.
Print Assumptions D2_refuted.

(* the global statement, over every reachable state *)
Theorem teardown_leaves_nothing :
  forall calls s,
    lreachable fixed calls s ->
    memN 0%N (cancelled s) = true ->
    reads_failed s ->
    quiescent s ->
    (forall t st, tget (threads s) t = Some st -> t <> TLink -> app_code st = true \/ status_of st = LDone) /\
    tbl s = [] /\ bclosed s = true /\
    (forall i, holding (tget (threads s) (TCall i)) = false) /\ closures s = [] /\
    remotes s = 0.
Proof. exact teardown_clean_lemma. Qed.
Print Assumptions teardown_leaves_nothing.

Theorem teardown_premises_are_met :
  exists s, lrun fixed td_calls linit td_schedule = Some s /\
            memN 0%N (cancelled s) = true /\ reads_failed s /\ quiescent s /\
            tget (threads s) (THandler 0) = Some (HGate 5%N) /\
            tget (threads s) (TCall 0) <> None /\ tget (threads s) (TCall 1) <> None /\
            tget (threads s) TLink = Some LReturned.
Proof. exact teardown_premises_met. Qed.
Print Assumptions teardown_premises_are_met.

(* ---- the stream API's own goroutine (LinkStream's decoder; StreamG.v): once the link context is cancelled it
   is inside the application's decode, gone, or can leave by a step of its own - whatever the readers do, in
   particular when they have stopped and the peer keeps sending ---- *)
Theorem stream_decoder_never_waits_in_vain :
  forall s, gcancelled s = true ->
    match dec s with
    | DSendReq _ _ | DSendRes _ =>
        exists s', gstep fixed s ADecCtx = Some s' /\ dec s' = DExit /\ gdone s' = Some ctx_err
    | _ => True
    end.
Proof. exact decoder_never_waits_in_vain_lemma. Qed.
Print Assumptions stream_decoder_never_waits_in_vain.

(* a reader inside its read function when decodeDone is closed can take that case: the reads return *)
Theorem stream_readers_wake :
  forall v s n, gdone s = Some n ->
    (rq s = RInRead -> gstep v s AFailReq <> None) /\ (rs s = RInRead -> gstep v s AFailRes <> None).
Proof. exact readers_wake_lemma. Qed.
Print Assumptions stream_readers_wake.

(* the tree as found (D3): the request reader has stopped, the link context is cancelled, the peer sends one
   more request: the decoder is blocked in its hand-over for ever; with the repair it leaves *)
Theorem D3_refuted :
  exists s, grun legacy (ginit d3_input) d3_sched = Some s /\ gcancelled s = true /\ rq s = RGone /\
            dec s = DSendReq 5%N None /\
            (forall l s', grun legacy s l = Some s' -> dec s' = DSendReq 5%N None) /\
            (exists s2, grun fixed (ginit d3_input) (d3_sched ++ [ADecCtx]) = Some s2 /\ dec s2 = DExit).
Proof. exact D3_refuted_lemma. Qed.
Print Assumptions D3_refuted.
