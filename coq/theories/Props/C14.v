(* C14 — connect/disconnect hooks are balanced; enumeration shows exactly the live links.
   Proved here: over ALL reachable states of Link.v (every schedule, fault sequence, peer behaviour)
   the notifications form one of the three prefixes of connect(registry), connect(link),
   disconnect(registry), disconnect(link); the enumeration shows the remote exactly between the two
   pairs; nothing is invoked before the connect pair.  And the step-level facts:
   registration and the two connect notifications happen in one step (one critical section), in
   the order registry-wide then per-link; removal and the two disconnect notifications likewise;
   the set-up goroutine reaches the disconnect step only after both reader loops have returned. *)
From Verif Require Import Base Link LinkProofs LinkInvH LinkInvT.

Theorem hook_protocol :
  forall calls s,
    lreachable fixed calls s ->
    (rev (hooks_of (evs s)) = [] /\ remotes s = 0 /\ invoked_any (evs s) = false) \/
    (rev (hooks_of (evs s)) = [(true, false); (true, true)] /\ remotes s = 1) \/
    (rev (hooks_of (evs s)) = [(true, false); (true, true); (false, false); (false, true)] /\ remotes s = 0).
Proof. exact hook_protocol_lemma. Qed.
Print Assumptions hook_protocol.

Theorem connect_is_atomic_with_registration :
  forall calls s,
    exists s', step_infra fixed calls s TSetup SStart = Some s' /\ remotes s' = 1 /\
               evs s' = EvHook true true :: EvHook true false :: evs s.
Proof.
  intros calls s. unfold step_infra. eexists; split; [reflexivity|].
  assert (L : forall s0 t st, remotes (loop_again calls s0 t st) = remotes s0 /\ evs (loop_again calls s0 t st) = evs s0).
  { intros s0 t st. unfold loop_again. destruct (memN 0%N (cancelled s0)); split; reflexivity. }
  split.
  - rewrite (proj1 (L _ _ _)), (proj1 (L _ _ _)). reflexivity.
  - rewrite (proj2 (L _ _ _)), (proj2 (L _ _ _)). reflexivity.
Qed.
Print Assumptions connect_is_atomic_with_registration.

Theorem disconnect_is_atomic_with_removal :
  forall calls s,
    step_infra fixed calls s TSetup SWaited =
    Some (mkL (tset (threads s) TSetup Finished) (tbl s) (bclosed s) (ents s) (cancelled s) (fatal s)
              (closures s) 0 (loops_done s) (flt s) (npub s) (nreq s)
              (EvHook false true :: EvHook false false :: evs s) (crashed s)).
Proof. reflexivity. Qed.
Print Assumptions disconnect_is_atomic_with_removal.

Theorem disconnect_waits_for_both_loops :
  forall s, tget (threads (loop_done s)) TSetup = Some SWaited ->
            tget (threads s) TSetup = Some SWaited \/ 2 <= S (loops_done s).
Proof.
  intros s H. unfold loop_done in H. cbv zeta in H.
  destruct (Nat.leb 2 (S (loops_done s))) eqn:E.
  - right. apply Nat.leb_le in E. exact E.
  - left. exact H.
Qed.
Print Assumptions disconnect_waits_for_both_loops.

(* the tree as found never calls the per-link hooks (D5) *)
Theorem D5_refuted :
  forall calls s, exists s', step_infra legacy calls s TSetup SStart = Some s' /\
                             evs s' = EvHook true false :: evs s.
Proof.
  intros calls s. unfold step_infra. eexists; split; [reflexivity|].
  assert (L : forall s0 t st, evs (loop_again calls s0 t st) = evs s0).
  { intros s0 t st. unfold loop_again. destruct (memN 0%N (cancelled s0)); reflexivity. }
  rewrite L, L. reflexivity.
Qed.
Print Assumptions D5_refuted.

(* ... and once the link has ended, its context is cancelled, its reads have returned and nothing of
   panrpc can run on by itself, both pairs have been delivered: exactly one connect pair and exactly
   one disconnect pair *)
Theorem hooks_complete_after_teardown :
  forall calls s,
    lreachable fixed calls s -> memN 0%N (cancelled s) = true -> reads_failed s -> quiescent s ->
    rev (hooks_of (evs s)) = [(true, false); (true, true); (false, false); (false, true)].
Proof. exact teardown_hooks_complete_lemma. Qed.
Print Assumptions hooks_complete_after_teardown.
