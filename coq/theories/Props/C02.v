(* C02 — handlers may call back over the link to any depth; slow handlers block nobody.
   Proved here (part (a) of DESIGN.md §5 C02): on a healthy link the reader loops are back at their
   read after every frame, having handed the frame to a fresh goroutine — whatever state any
   handler, closure or caller goroutine is in (stalled, blocked, parked anywhere): the statements
   quantify over all states [s] with no condition on other threads.
   Also proved, over all reachable states: no lost wake-up — a call that waits for its response on a
   healthy link is registered in the pending-call table under its own id on the entry its waiter is
   blocked on ([waiting_call_is_registered]), and a response frame with that id, once delivered,
   completes the call by at most six steps of the response reader, its publisher, the call's waiter
   and the caller — whatever any handler, closure or other call is doing ([response_completes_call]).
   Together with [request_loop_never_waits_for_handlers] and C01's callee theorem every hop of an
   alternating chain needs only its own goroutines.
   Composed (Pair.v: two endpoints and a network) into one hop of any call chain:
   [hop_completes_whatever_else_is_stalled] — in every reachable state of the closed system, a call
   that waits for its response on a healthy link is completed by at most ten steps, all of them
   steps of its own goroutines on the two sides or deliveries of its own two frames; the premises
   say nothing about any other goroutine of either endpoint (stalled handlers, running closures,
   calls in any state).  A chain that alternates direction is a sequence of such hops, each made
   from inside a handler that is, for this theorem, just another stalled goroutine.
   The three moves of a chain are theorems of the closed system: down ([chain_descends]: the request
   reaches the peer and its handler enters application code, the caller's state untouched), across
   ([hop_completes_whatever_else_is_stalled]: the innermost call completes) and back up
   ([stalled_handler_resumes_and_answers]: a handler that resumes answers its caller within seven
   steps); each needs only the goroutines and frames of its own call; a chain of depth 2 in both
   directions at once is exhibited in Props/C01.v ([both_directions_nested], Duo.v).
   Part (b), the induction over the depth (DuoChain.v, both directions networked): [chain_completes] —
   from EVERY reachable state of the closed system in which both endpoints are up and k calls are
   stacked (each waits for its response, its peer's handler being inside application code, where it
   issued the next one; any pattern of directions, alternating chains included), for EVERY k, there is a
   schedule of at most 8k steps - only steps of the chain's own goroutines and deliveries of its own
   response frames - in which every call of the chain returns, innermost first.  The premises say
   nothing about any other goroutine of either endpoint.  The premises are met at every depth:
   [chain_extends] - from every such state an unstarted call of either side whose function stays inside
   application code makes whatever chain there is one level deeper in five steps, all existing levels
   untouched - and [chains_of_every_depth]: for every k there is a run of the closed system that builds an
   alternating chain of depth k (level m is call m of side A for even m, of side B for odd m);
   [every_depth_chain_completes] puts the two together.  [chain_state_reachable] is the depth-3 instance
   by computation.
   What stays outside the model: application code is opaque in Link.v - "the handler resumes once the
   call it made has returned" is a step the schedule takes, not a consequence of a handler program; and
   the fairness that makes the scheduler actually take these steps is the Go runtime's. *)
From Verif Require Import Base Link LinkProofs LinkInvB LinkInvK LinkInvQ LinkFrame LinkUp LinkChain LinkFresh Pair PairProofs PairProgress Duo DuoChain DuoBuild.

Theorem request_loop_never_waits_for_handlers :
  forall calls s f arg,
    tget (threads s) TReqLoop = Some QLReading -> memN 0%N (cancelled s) = false ->
    f_unmarshal (flt s) = None ->
    exists s', step_env fixed calls s (EDeliverReq f arg) = Some s' /\
               tget (threads s') TReqLoop = Some QLReading /\
               tget (threads s') (TReq (nreq s)) = Some (QStart f arg) /\
               nreq s' = S (nreq s).
Proof.
  intros calls s f arg Hr Hc Hf. unfold step_env. rewrite Hr. unfold take_fault. rewrite Hf. simpl.
  unfold loop_again. simpl. rewrite Hc. eexists; split; [reflexivity|]. unfold setT; simpl.
  split; [apply tget_tset_same|]. split; [|reflexivity].
  rewrite tget_tset_other by discriminate. apply tget_tset_same.
Qed.
Print Assumptions request_loop_never_waits_for_handlers.

Theorem response_loop_never_waits_for_callers :
  forall calls s id x e,
    tget (threads s) TResLoop = Some RLReading -> memN 0%N (cancelled s) = false ->
    f_unmarshal (flt s) = None ->
    exists s', step_env fixed calls s (EDeliverRes id x e) = Some s' /\
               tget (threads s') TResLoop = Some RLReading /\
               tget (threads s') (TPub (npub s)) = Some (PEnter id x e).
Proof.
  intros calls s id x e Hr Hc Hf. unfold step_env. rewrite Hr. unfold take_fault. rewrite Hf. simpl.
  unfold loop_again. simpl. rewrite Hc. eexists; split; [reflexivity|]. unfold setT; simpl.
  split; [apply tget_tset_same|]. rewrite tget_tset_other by discriminate. apply tget_tset_same.
Qed.
Print Assumptions response_loop_never_waits_for_callers.

(* a resolver hands its request to a handler goroutine of its own and exits: no handler runs on a
   goroutine that anything else waits for *)
Theorem each_request_gets_its_own_handler :
  forall calls s n arg,
    f_unmarshal (flt s) = None ->
    exists s', step_callee calls s (TReq n) n (QStart FGated arg) = Some s' /\
               tget (threads s') (THandler n) = Some (HStart FGated arg) /\
               tget (threads s') (TReq n) = Some Finished.
Proof.
  intros calls s n arg Hf. unfold step_callee, take_fault. rewrite Hf. simpl.
  eexists; split; [reflexivity|]. unfold setT; simpl. split; [apply tget_tset_same|].
  rewrite tget_tset_other by discriminate. apply tget_tset_same.
Qed.
Print Assumptions each_request_gets_its_own_handler.

Theorem waiting_call_is_registered :
  forall calls s i ent,
    lreachable fixed calls s -> bclosed s = false -> tget (threads s) (TWaiter i) = Some (WBlocked ent) ->
    lookupN (N.of_nat i) (tbl s) = Some ent.
Proof. exact waiting_call_is_registered_lemma. Qed.
Print Assumptions waiting_call_is_registered.

Theorem response_completes_call :
  forall calls s i ent x e,
    lreachable fixed calls s -> bclosed s = false ->
    tget (threads s) TResLoop = Some RLReading -> memN 0%N (cancelled s) = false -> f_unmarshal (flt s) = None ->
    tget (threads s) (TCall i) = Some CBlocked -> tget (threads s) (TWaiter i) = Some (WBlocked ent) ->
    exists cs s' v er,
      length cs <= 6 /\
      Forall (fun c => fst c = Env (EDeliverRes (N.of_nat i) x e) \/ fst c = Run (TPub (npub s)) \/
                       fst c = Run (TWaiter i) \/ fst c = Run (TCall i)) cs /\
      lrun fixed calls s cs = Some s' /\
      tget (threads s') (TCall i) = Some (CReturned v er) /\
      (er = None -> e = None).
Proof. exact response_completes_call_lemma. Qed.
Print Assumptions response_completes_call.

(* non-vacuity: a call waits for its response while a handler of the same link is stalled *)
Example waiting_call_with_stalled_handler :
  exists s, lreachable fixed [mkCall 1 2 false 10] s /\ bclosed s = false /\
            tget (threads s) TResLoop = Some RLReading /\ memN 0%N (cancelled s) = false /\ f_unmarshal (flt s) = None /\
            tget (threads s) (TCall 0) = Some CBlocked /\ tget (threads s) (TWaiter 0) = Some (WBlocked 0) /\
            tget (threads s) (THandler 0) = Some (HGate 5%N).
Proof.
  eexists. split.
  - exists [(Run TSetup, 0); (Env (EStart 0), 0); (Run (TCall 0), 0); (Run (TWaiter 0), 0);
            (Env (EDeliverReq FGated 5%N), 0); (Run (TReq 0), 0); (Run (THandler 0), 0)].
    vm_compute. reflexivity.
  - repeat split.
Qed.

Theorem hop_completes_whatever_else_is_stalled :
  forall (fn : nat -> fnkind) callsA callsB l0 p i ent arg x e,
    prun fn callsA callsB pinit l0 = Some p ->
    bclosed (pa p) = false -> tget (threads (pa p)) TResLoop = Some RLReading ->
    memN 0%N (cancelled (pa p)) = false -> f_unmarshal (flt (pa p)) = None ->
    tget (threads (pa p)) (TCall i) = Some CBlocked -> tget (threads (pa p)) (TWaiter i) = Some (WBlocked ent) ->
    req_written (evs (pa p)) i = Some arg ->
    tget (threads (pb p)) TReqLoop = Some QLReading -> memN 0%N (cancelled (pb p)) = false -> no_callee_faults (pb p) ->
    returns_at_once (fn i) = true -> handler_result (fn i) arg = Some (x, e) ->
    exists l p' v er,
      length l <= 10 /\ Forall (own_action p i) l /\ prun fn callsA callsB p l = Some p' /\
      tget (threads (pa p')) (TCall i) = Some (CReturned v er) /\ (er = None -> e = None).
Proof. exact hop_completes_lemma. Qed.
Print Assumptions hop_completes_whatever_else_is_stalled.

(* the premises are met with a stalled handler on each side *)
Theorem hop_premises_are_met :
  exists p, prun hx_fn hx_calls [] pinit hx_sched = Some p /\
    bclosed (pa p) = false /\ tget (threads (pa p)) TResLoop = Some RLReading /\
    memN 0%N (cancelled (pa p)) = false /\ f_unmarshal (flt (pa p)) = None /\
    tget (threads (pa p)) (TCall 1) = Some CBlocked /\ tget (threads (pa p)) (TWaiter 1) = Some (WBlocked 1) /\
    req_written (evs (pa p)) 1 = Some 11%N /\
    tget (threads (pb p)) TReqLoop = Some QLReading /\ memN 0%N (cancelled (pb p)) = false /\ no_callee_faults (pb p) /\
    returns_at_once (hx_fn 1) = true /\ handler_result (hx_fn 1) 11%N = Some (11%N, None) /\
    tget (threads (pb p)) (THandler 0) = Some (HGate 10%N) /\ tget (threads (pa p)) (THandler 0) = Some (HGate 5%N).
Proof. exact hop_premises_example. Qed.
Print Assumptions hop_premises_are_met.

(* the way down a chain: the request of call i reaches the peer and its handler enters application
   code (from where it may call back) by three steps, none of them of the calling endpoint, whose
   state is untouched *)
Theorem chain_descends :
  forall (fn : nat -> fnkind) callsA callsB l0 p i arg,
    prun fn callsA callsB pinit l0 = Some p ->
    req_written (evs (pa p)) i = Some arg -> fn i = FGated ->
    tget (threads (pb p)) TReqLoop = Some QLReading -> memN 0%N (cancelled (pb p)) = false -> no_callee_faults (pb p) ->
    exists p',
      prun fn callsA callsB p [NReq i; PB (Run (TReq (nreq (pb p)))) 0; PB (Run (THandler (nreq (pb p)))) 0] = Some p' /\
      pa p' = pa p /\ nth_error (dreq p') (nreq (pb p)) = Some i /\
      tget (threads (pb p')) (THandler (nreq (pb p))) = Some (HGate arg) /\
      memN 0%N (cancelled (pb p')) = false /\ no_callee_faults (pb p') /\ bclosed (pb p') = bclosed (pb p).
Proof. exact descend_lemma. Qed.
Print Assumptions chain_descends.

(* the way back up: once the stalled handler of call i resumes, call i is completed by at most seven
   steps of that handler, the network (its response frame) and call i's own goroutines - whatever every
   other goroutine of either endpoint is doing *)
Theorem stalled_handler_resumes_and_answers :
  forall (fn : nat -> fnkind) callsA callsB l0 p i ent n arg,
    prun fn callsA callsB pinit l0 = Some p ->
    bclosed (pa p) = false -> tget (threads (pa p)) TResLoop = Some RLReading ->
    memN 0%N (cancelled (pa p)) = false -> f_unmarshal (flt (pa p)) = None ->
    tget (threads (pa p)) (TCall i) = Some CBlocked -> tget (threads (pa p)) (TWaiter i) = Some (WBlocked ent) ->
    nth_error (dreq p) n = Some i -> tget (threads (pb p)) (THandler n) = Some (HGate arg) ->
    memN 0%N (cancelled (pb p)) = false -> no_callee_faults (pb p) ->
    exists l p' v er,
      length l <= 7 /\ Forall (unwind_action p i n) l /\ prun fn callsA callsB p l = Some p' /\
      tget (threads (pa p')) (TCall i) = Some (CReturned v er).
Proof. exact unwind_completes_lemma. Qed.
Print Assumptions stalled_handler_resumes_and_answers.

(* what carries the outer calls of a chain across everything the inner ones do (LinkFrame.v): a caller
   that waits for its response - its waiter goroutine not yet run - stays exactly there through ANY
   schedule that does not run that waiter and does not cancel the link context; a handler that is
   inside application code stays there through ANY schedule that does not run it.  Whatever else the
   schedule contains: other calls in both directions to any depth, closures, per-call cancellations,
   faults. *)
Theorem waiting_caller_undisturbed :
  forall calls i ent cs s s',
    KeepC i ent s -> Forall (spares_caller i) cs -> lrun fixed calls s cs = Some s' -> KeepC i ent s'.
Proof. exact waiting_caller_undisturbed_lemma. Qed.
Print Assumptions waiting_caller_undisturbed.

Theorem stalled_handler_undisturbed :
  forall calls n arg cs Q s s',
    InvQ Q s -> KeepH n arg s -> n < nreq s -> Forall (fun c => fst c <> Run (THandler n)) cs ->
    lrun fixed calls s cs = Some s' -> KeepH n arg s' /\ n < nreq s'.
Proof. exact gated_handler_undisturbed_lemma. Qed.
Print Assumptions stalled_handler_undisturbed.

Theorem undisturbed_example :
  exists s s', lrun fixed fr_calls linit fr_prefix = Some s /\ lrun fixed fr_calls s fr_rest = Some s' /\
    KeepC 0 0 s /\ KeepH 0 5%N s /\ Forall (spares_caller 0) fr_rest /\
    Forall (fun c => fst c <> Run (THandler 0)) fr_rest /\
    In (EvReturn 1 71%N None) (evs s') /\ KeepC 0 0 s' /\ KeepH 0 5%N s'.
Proof. exact frame_example. Qed.
Print Assumptions undisturbed_example.

(* ---- part (b): every depth ---- *)

(* a caller that waits with its waiter goroutine not yet run is completed by the response frame and its own
   goroutines, whatever the waiter finds when it runs (nothing, an earlier duplicate, a cancelled call
   context, a released entry) *)
Theorem waiting_caller_completes :
  forall calls s i ent x e,
    lreachable fixed calls s -> bclosed s = false ->
    tget (threads s) TResLoop = Some RLReading -> memN 0%N (cancelled s) = false -> f_unmarshal (flt s) = None ->
    tget (threads s) (TCall i) = Some CBlocked -> tget (threads s) (TWaiter i) = Some (WStart ent) ->
    exists cs s' v er,
      length cs <= 7 /\ Forall (completes_own s i x e) cs /\ lrun fixed calls s cs = Some s' /\
      tget (threads s') (TCall i) = Some (CReturned v er).
Proof. exact waiting_caller_completes_lemma. Qed.
Print Assumptions waiting_caller_completes.

(* while nothing goes wrong both endpoints stay up: healthy and both reader loops at their reads *)
Theorem endpoint_stays_up :
  forall calls cs s s', Up s -> Forall (fun c => LinkHealthy.benign (fst c) = true) cs ->
    lrun fixed calls s cs = Some s' -> Up s'.
Proof. exact Up_run. Qed.
Print Assumptions endpoint_stays_up.

Theorem chain_completes :
  forall fnA fnB callsA callsB levels l0 d,
    drun fnA fnB callsA callsB dinit l0 = Some d -> Up (da d) -> Up (db d) ->
    Forall (LevelOk d) levels -> ForallOrdPairs distinct levels ->
    exists l d', completes fnA fnB callsA callsB d levels l d' /\ length l <= 8 * length levels /\
                 drun fnA fnB callsA callsB d l = Some d' /\ Up (da d') /\ Up (db d').
Proof. exact chain_completes_lemma. Qed.
Print Assumptions chain_completes.

Theorem chain_state_reachable :
  exists d, drun ch_fn ch_fn ch_callsA ch_callsB dinit (ch_setup ++ ch_build) = Some d /\
            Up (da d) /\ Up (db d) /\ Forall (LevelOk d) ch_levels /\ ForallOrdPairs distinct ch_levels.
Proof. exact chain_state_reachable_lemma. Qed.
Print Assumptions chain_state_reachable.

(* the alternating chain of depth 3 completes *)
Theorem depth_three_chain_completes :
  exists d l d', drun ch_fn ch_fn ch_callsA ch_callsB dinit (ch_setup ++ ch_build) = Some d /\
                 completes ch_fn ch_fn ch_callsA ch_callsB d ch_levels l d' /\ length l <= 24.
Proof.
  destruct chain_state_reachable_lemma as (d & Hr & HUa & HUb & Hok & Hdis).
  destruct (chain_completes_lemma ch_fn ch_fn ch_callsA ch_callsB ch_levels _ d Hr HUa HUb Hok Hdis) as (l & d' & Hc & Hl & _).
  exists d, l, d'. split; [exact Hr|]. split; [exact Hc|exact Hl].
Qed.
Print Assumptions depth_three_chain_completes.

(* the premises of chain_completes are met at every depth *)
Theorem chain_extends :
  forall fnA fnB cA cB l0 d dir j cs levels,
    drun fnA fnB cA cB dinit l0 = Some d -> Up (da d) -> Up (db d) -> Forall (LevelOk d) levels ->
    tget (threads (ep dir d)) (TCall j) = None -> nth_error (if dir then cA else cB) j = Some cs -> c_closure cs = false ->
    (if dir then fnA else fnB) j = FGated ->
    exists l d' lv,
      length l = 5 /\ drun fnA fnB cA cB d l = Some d' /\ Up (da d') /\ Up (db d') /\
      LevelOk d' lv /\ lv_dir lv = dir /\ lv_i lv = j /\ lv_arg lv = c_arg cs /\
      Forall (LevelOk d') levels /\ Forall (distinct lv) levels /\
      (forall sd j', (sd = dir -> j' <> j) -> Fresh j' 0 (ep sd d) -> Fresh j' 0 (ep sd d')).
Proof. exact chain_extends_lemma. Qed.
Print Assumptions chain_extends.

Theorem chains_of_every_depth :
  forall K k, k <= K ->
    exists sched d levels,
      drun gfn gfn (repeat c0 K) (repeat c0 K) dinit sched = Some d /\ Up (da d) /\ Up (db d) /\
      Forall (LevelOk d) levels /\ ForallOrdPairs distinct levels /\ length levels = k /\
      (forall m lv, nth_error (rev levels) m = Some lv -> lv_dir lv = Nat.even m /\ lv_i lv = m) /\
      (forall sd j, k <= j -> Fresh j 0 (ep sd d)).
Proof. exact chains_of_every_depth_lemma. Qed.
Print Assumptions chains_of_every_depth.

(* for every depth k: a run of the closed system that builds an alternating chain of depth k, and a schedule of
   at most 8k further steps - the chain's own - in which all k calls return, innermost first *)
Theorem every_depth_chain_completes :
  forall k, exists sched d levels l d',
    drun gfn gfn (repeat c0 k) (repeat c0 k) dinit sched = Some d /\ length levels = k /\
    (forall m lv, nth_error (rev levels) m = Some lv -> lv_dir lv = Nat.even m /\ lv_i lv = m) /\
    completes gfn gfn (repeat c0 k) (repeat c0 k) d levels l d' /\ length l <= 8 * k.
Proof.
  intros k. destruct (chains_of_every_depth_lemma k k (le_n k)) as (sched & d & levels & Hr & HUa & HUb & Hok & Hdis & Hlen & Halt & _).
  destruct (chain_completes_lemma gfn gfn (repeat c0 k) (repeat c0 k) levels sched d Hr HUa HUb Hok Hdis) as (l & d' & Hc & Hl & _).
  exists sched, d, levels, l, d'. rewrite Hlen in Hl. auto.
Qed.
Print Assumptions every_depth_chain_completes.
