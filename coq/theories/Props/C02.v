(* C02 — handlers may call back over the link to any depth; slow handlers block nobody.
   Proved here (part (a) of DESIGN.md §5 C02): on a healthy link the reader loops are back at their
   read after every frame, having handed the frame to a fresh goroutine — whatever state any
   handler, closure or caller goroutine is in (stalled, blocked, parked anywhere): the statements
   quantify over all states [s] with no condition on other threads.
   NOT proved (part (b)): deadlock freedom of arbitrary alternating call chains in the closed
   two-registry system; decided by the nesting workloads of the check only (level note). *)
From Verif Require Import Base Link LinkProofs.

Theorem request_loop_never_waits_for_handlers :
  forall calls s f arg,
    tget (threads s) TReqLoop = Some QLReading -> memN 0%N (cancelled s) = false ->
    f_unmarshal (flt s) = None ->
    exists s', step_env calls s (EDeliverReq f arg) = Some s' /\
               tget (threads s') TReqLoop = Some QLReading /\
               tget (threads s') (TReq (nreq s)) = Some (QStart f arg) /\
               nreq s' = S (nreq s).
Proof.
  intros calls s f arg Hr Hc Hf. unfold step_env. rewrite Hr. unfold take_fault. rewrite Hf. simpl.
  unfold loop_again. simpl. rewrite Hc. eexists; split; [reflexivity|]. unfold setT; simpl.
  split; [apply tget_tset_same|]. split; [|reflexivity].
  rewrite tget_tset_other by discriminate. apply tget_tset_same.
Qed.
Print Assumptions request_loop_never_waits_for_handlers.

Theorem response_loop_never_waits_for_callers :
  forall calls s id x e,
    tget (threads s) TResLoop = Some RLReading -> memN 0%N (cancelled s) = false ->
    f_unmarshal (flt s) = None ->
    exists s', step_env calls s (EDeliverRes id x e) = Some s' /\
               tget (threads s') TResLoop = Some RLReading /\
               tget (threads s') (TPub (npub s)) = Some (PEnter id x e).
Proof.
  intros calls s id x e Hr Hc Hf. unfold step_env. rewrite Hr. unfold take_fault. rewrite Hf. simpl.
  unfold loop_again. simpl. rewrite Hc. eexists; split; [reflexivity|]. unfold setT; simpl.
  split; [apply tget_tset_same|]. rewrite tget_tset_other by discriminate. apply tget_tset_same.
Qed.
Print Assumptions response_loop_never_waits_for_callers.

(* a resolver hands its request to a handler goroutine of its own and exits: no handler runs on a
   goroutine that anything else waits for *)
Theorem each_request_gets_its_own_handler :
  forall calls s n arg,
    f_unmarshal (flt s) = None ->
    exists s', step_callee calls s (TReq n) n (QStart FGated arg) = Some s' /\
               tget (threads s') (THandler n) = Some (HStart FGated arg) /\
               tget (threads s') (TReq n) = Some Finished.
Proof.
  intros calls s n arg Hf. unfold step_callee, take_fault. rewrite Hf. simpl.
  eexists; split; [reflexivity|]. unfold setT; simpl. split; [apply tget_tset_same|].
  rewrite tget_tset_other by discriminate. apply tget_tset_same.
Qed.
Print Assumptions each_request_gets_its_own_handler.
