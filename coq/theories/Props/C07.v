(* C07 — only exported methods on the exposed object graph are invocable — the right one.
   Model: Resolve.v.  The type facts [tys] and the object graph [root] are arbitrary in the
   theorems; [wf_tys] (exported flags agree with names, method tables list exported names only —
   what Go's reflect guarantees) is re-checked by computation on the facts read from Go on every
   run (regenerated obligation, bin/vlib/resolve.py). *)
From Coq Require Import String.
From Verif Require Import Base Resolve ResolveProofs.

(* For every object graph, every function-name string and every argument count: if the request
   runs application code then every component of its dot-separated name is an exported
   identifier — unexported fields and methods, differently-cased names, empty components are
   never invocable. *)
Theorem only_exported_names_run :
  forall v tys root name argc i m,
    wf_tys tys = true -> resolve v tys root name argc = OInvoked i m ->
    forallb exported_name (split_dot name) = true.
Proof. exact only_exported_names_run_lemma. Qed.
Print Assumptions only_exported_names_run.

(* ... and then the path walk succeeded through exported fields only (read-only flag clear), the
   last component is in the method set of the value held there, its parameter count minus the
   context equals the number of arguments sent, and the code that runs is what Go's method-value
   rules select for exactly that value. *)
Theorem invoked_is_the_resolved_method :
  forall v tys root name argc i m,
    resolve v tys root name argc = OInvoked i m ->
    exists f, walk v tys root false (removelast (split_dot name)) = WOk f false /\
              has_method tys f (last_str (split_dot name)) = Some (argc + 1) /\
              invoke tys 20 f (last_str (split_dot name)) = OInvoked i m.
Proof. exact resolve_invoked_inv. Qed.
Print Assumptions invoked_is_the_resolved_method.

(* caller-side naming (join with ".") and callee-side lookup (split on ".") agree for every
   path of dot-free components, of any length *)
Theorem split_join_agree :
  forall ps, ps <> [] -> forallb no_dot ps = true -> split_dot (join_dot ps) = ps.
Proof. exact split_join. Qed.
Print Assumptions split_join_agree.

(* the only other callable is the built-in closure entry point, with exactly two arguments *)
Theorem fallback_is_closure_entry_only :
  forall name argc, fallback name argc = OClosureEntry -> name = "CallClosure"%string /\ argc = 2.
Proof.
  intros name argc. unfold fallback. destruct (String.eqb name "CallClosure") eqn:E; [|discriminate].
  destruct (Nat.eqb argc 2) eqn:E2; [|discriminate]. intros _.
  apply String.eqb_eq in E. apply Nat.eqb_eq in E2. auto.
Qed.
Print Assumptions fallback_is_closure_entry_only.
