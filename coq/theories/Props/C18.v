(* C18 — remote definitions are validated totally and named consistently with lookup. *)
From Coq Require Import String.
From Verif Require Import Base Resolve ResolveProofs Remote RemoteProofs.

Theorem validate_ok_iff :
  forall fuel prefix fs,
    (exists ps, validate_fields fuel prefix fs = VOk ps) <-> all_valid fuel fs = true.
Proof. exact validate_ok_iff_lemma. Qed.
Print Assumptions validate_ok_iff.

Theorem naming_agrees_with_lookup :
  forall p, p <> [] -> forallb no_dot p = true -> split_dot (wire_name p) = p.
Proof. exact naming_agrees_lemma. Qed.
Print Assumptions naming_agrees_with_lookup.

Theorem stub_paths_nonempty :
  forall fuel prefix fs ps,
    validate_fields fuel prefix fs = VOk ps ->
    forall p, In p ps -> exists suffix, p = (prefix ++ suffix)%list /\ suffix <> [].
Proof. exact validate_paths_wf. Qed.
Print Assumptions stub_paths_nonempty.

(* the error is the one of the first offending field in field order, depth first *)
Example first_offender_decides :
  validate [("A"%string, RFunc 1 false 1 true); ("B"%string, RFunc 1 true 1 false)] = VErr ErrInvalidArgs /\
  validate [("N"%string, RStruct [("B"%string, RFunc 1 true 1 false)]); ("A"%string, RFunc 1 false 1 true)] = VErr ErrInvalidReturn /\
  validate [("A"%string, RFunc 1 false 1 false)] = VErr ErrInvalidReturn.
Proof. repeat split. Qed.
