From Verif Require Import Base Link.
Theorem placeholder : True. Proof. exact I. Qed.
Print Assumptions placeholder.
