(* C03 — when a link ends, every in-flight call errors out; none hang or fake success.
   Proved here: every failure of a read / frame decode closes the pending-call table in the same
   step; a call made on an ended link fails at once with a non-nil error and writes nothing; a
   woken waiter always hands over a 'cancelled' response and the caller turns it into an error
   with a zero value (so a nil error can only come from a genuine response); and, over ALL
   reachable states of Link.v (every schedule, fault sequence, cancellation, peer behaviour): on an
   ended link a call blocked in its result select returns after at most four steps of its own
   waiter and itself — no step of any handler, peer, reader or transport is needed — with a non-nil
   error unless its waiter already holds a genuine error-free response. *)
From Verif Require Import Base Link LinkProofs LinkInv16 LinkInvB LinkInvT LinkProgress LinkInvF.

Theorem read_failure_ends_link :
  forall calls s n,
    tget (threads s) TResLoop = Some RLReading ->
    exists s', step_env fixed calls s (EFailReadRes n) = Some s' /\ bclosed s' = true /\ tbl s' = [] /\
               tget (threads s') TResLoop = Some (SetErrMid (EInj n) KLoop).
Proof.
  intros calls s n Hr. unfold step_env. rewrite Hr. eexists; split; [reflexivity|].
  unfold begin_seterr, wake, setT, do_close; simpl. repeat split.
  rewrite tget_map_wake_gen. rewrite tget_tset_same. reflexivity.
Qed.
Print Assumptions read_failure_ends_link.

Theorem late_calls_fail_fast :
  forall calls s i cs,
    bclosed s = true -> tget (threads s) (TCall i) = None -> nth_error calls i = Some cs ->
    f_marshal (flt s) = None ->
    exists s', step_env fixed calls s (EStart i) = Some s' /\
               tget (threads s') (TCall i) = Some (CReturned zero (Some EClosed)) /\
               evs s' = EvReturn i zero (Some EClosed) :: evs s /\ fatal s' = fatal s /\ ~ In i (closures s').
Proof.
  intros calls s i cs Hb Ht Hn Hf. unfold step_env. rewrite Ht, Hn.
  assert (G : forall s0, bclosed s0 = true -> f_marshal (flt s0) = None -> evs s0 = evs s -> fatal s0 = fatal s ->
              exists s', match take_fault s0 2 with
                         | (Some x, s1) => Some (caller_panic calls s1 i (EInj x))
                         | (None, s1) => if bclosed s1 then Some (caller_return s1 i zero (Some EClosed)) else None
                         end = Some s' /\
                         tget (threads s') (TCall i) = Some (CReturned zero (Some EClosed)) /\
                         evs s' = EvReturn i zero (Some EClosed) :: evs s /\ fatal s' = fatal s /\ ~ In i (closures s')).
  { intros s0 Hb0 Hf0 He0 Hfa. unfold take_fault. rewrite Hf0. simpl. rewrite Hb0.
    eexists; split; [reflexivity|]. unfold caller_return, setT, with_closures, with_ev; simpl.
    split; [apply tget_tset_same|]. split; [rewrite He0; reflexivity|]. split; [exact Hfa|].
    unfold remove_nat. intros Hin. apply filter_In in Hin as [_ Hin]. rewrite Nat.eqb_refl in Hin. discriminate. }
  destruct (c_closure cs).
  - destruct (G (with_closures s (i :: closures s))) as (s' & H1 & H2); auto.
    exists s'. split; [|exact H2].
    unfold take_fault in *. simpl in *. rewrite Hf in *. simpl in *. rewrite Hb in *. exact H1.
  - destruct (G s) as (s' & H1 & H2); auto.
    exists s'. split; [|exact H2].
    unfold take_fault in *. rewrite Hf in *. simpl in *. rewrite Hb in *. exact H1.
Qed.
Print Assumptions late_calls_fail_fast.

(* a 'cancelled' response becomes (zero value, non-nil error) for both stub arities, without decoding *)
Theorem cancelled_response_is_an_error :
  forall calls s i e,
    step_caller calls s i (CSelected (Some (WCancelled e))) = Some (caller_return s i zero (Some e)).
Proof. reflexivity. Qed.
Print Assumptions cancelled_response_is_an_error.

(* the blocked-thread invariant: in every reachable state a blocked caller has a live waiter, a
   blocked waiter / publisher / watcher has no applicable reason to wake, no waiter and publisher
   are parked on the same entry, and a closed table has only cancelled entries *)
Theorem nobody_waits_in_vain :
  forall calls s, lreachable fixed calls s -> InvB calls s.
Proof. exact InvB_reachable. Qed.
Print Assumptions nobody_waits_in_vain.

Theorem inflight_calls_return_error :
  forall calls s i,
    lreachable fixed calls s -> bclosed s = true -> tget (threads s) (TCall i) = Some CBlocked ->
    exists cs s' v e, length cs <= 4 /\ own_steps i cs /\ lrun fixed calls s cs = Some s' /\
                      tget (threads s') (TCall i) = Some (CReturned v e) /\
                      (e = None -> exists x, tget (threads s) (TWaiter i) = Some (WWoke (WResp x None))).
Proof. exact inflight_call_returns_lemma. Qed.
Print Assumptions inflight_calls_return_error.

(* the general statement: on an ended link EVERY started call returns — wherever it is: before its
   request write, blocked in its select, holding a result, inside the recover path — within six
   steps of its own waiter and itself, with a non-nil error unless a genuine error-free response was
   already in hand; nothing else (handler, peer, reader, transport) has to move *)
Theorem every_started_call_returns :
  forall calls s i st,
    lreachable fixed calls s -> bclosed s = true -> tget (threads s) (TCall i) = Some st ->
    exists cs s' v e, length cs <= 6 /\ own_steps i cs /\ lrun fixed calls s cs = Some s' /\
                      tget (threads s') (TCall i) = Some (CReturned v e) /\
                      (e = None -> in_hand s i).
Proof. exact started_call_returns_lemma. Qed.
Print Assumptions every_started_call_returns.

(* ... and a call made afterwards fails in its first step, registering, writing and reporting nothing
   (only a failing marshal of its own arguments can still be reported) *)
Theorem call_after_end_fails :
  forall calls s i cs0,
    lreachable fixed calls s -> bclosed s = true -> tget (threads s) (TCall i) = None -> nth_error calls i = Some cs0 ->
    exists s1, lstep fixed calls s (Env (EStart i)) 0 = Some s1 /\ tbl s1 = [] /\
               ((exists x, tget (threads s1) (TCall i) = Some (SetErrMid (EInj x) (KReturn (EInj x))) /\ evs s1 = evs s) \/
                (tget (threads s1) (TCall i) = Some (CReturned zero (Some EClosed)) /\
                 evs s1 = EvReturn i zero (Some EClosed) :: evs s /\ fatal s1 = fatal s)).
Proof. exact call_after_end_fails_lemma. Qed.
Print Assumptions call_after_end_fails.

(* non-vacuity: a call that has not written its request yet when the response reader's read fails *)
Example started_call_on_ended_link :
  exists s, lreachable fixed [mkCall 1 2 false 10] s /\ bclosed s = true /\
            tget (threads s) (TCall 0) = Some (CRegistered 0).
Proof.
  eexists. split; [exists [(Run TSetup, 0); (Env (EStart 0), 0); (Env (EFailReadRes 3%N), 0)]; vm_compute; reflexivity|].
  split; reflexivity.
Qed.

(* "the link has ended" always means "the table is closed": whenever a failure of any kind has been
   noticed (a goroutine is inside setErr), reported (the fatal slot is written) or returned by Link,
   the pending-call table is closed - so the two theorems above apply for every cause of the end *)
Theorem ended_means_closed :
  forall calls s,
    lreachable fixed calls s ->
    (fatal s <> None \/ (exists t e k, tget (threads s) t = Some (SetErrMid e k)) \/ (exists e, In (EvLinkReturn e) (evs s))) ->
    bclosed s = true.
Proof. exact ended_means_closed_lemma. Qed.
Print Assumptions ended_means_closed.

Theorem calls_return_once_the_link_has_ended :
  forall calls s i st,
    lreachable fixed calls s ->
    (fatal s <> None \/ (exists t e k, tget (threads s) t = Some (SetErrMid e k)) \/ (exists e, In (EvLinkReturn e) (evs s))) ->
    tget (threads s) (TCall i) = Some st ->
    exists cs s' v e, length cs <= 6 /\ own_steps i cs /\ lrun fixed calls s cs = Some s' /\
                      tget (threads s') (TCall i) = Some (CReturned v e) /\
                      (e = None -> in_hand s i).
Proof.
  intros calls s i st Hr Hend Ht. eapply started_call_returns_lemma; eauto. eapply ended_means_closed_lemma; eauto.
Qed.
Print Assumptions calls_return_once_the_link_has_ended.
