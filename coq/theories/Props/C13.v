(* C13 — each link has its own identity; calls and failures never cross links.
   Model: Registry.v, the product of per-link endpoints; a step of one link is a step of that
   component only.  What the links share (closure table, remotes table) is keyed by fresh ids. *)
From Verif Require Import Base Link LinkInvH Registry RegistryProofs.

Theorem link_isolation :
  forall v callss rs k c b rs' j,
    rstep v callss rs k c b = Some rs' -> j <> k -> nth_error rs' j = nth_error rs j.
Proof.
  intros v callss rs k c b rs' j H Hne. unfold rstep in H.
  destruct (nth_error rs k) as [s|]; [|discriminate].
  destruct (lstep v (nth k callss []) s c b) as [s'|]; [|discriminate].
  inversion H; subst. apply nth_error_upd_neq. auto.
Qed.
Print Assumptions link_isolation.

(* in particular: whatever happens on link k (fault, cancellation, garbage, handler panic), the fatal
   slot, pending calls and threads of every other link are the same before and after *)
Theorem failure_isolated :
  forall v callss rs k c b rs' j s,
    rstep v callss rs k c b = Some rs' -> j <> k -> nth_error rs j = Some s ->
    exists s', nth_error rs' j = Some s' /\ fatal s' = fatal s /\ bclosed s' = bclosed s /\ threads s' = threads s.
Proof.
  intros v callss rs k c b rs' j s H Hne Hs. exists s. rewrite (link_isolation _ _ _ _ _ _ _ _ H Hne). auto.
Qed.
Print Assumptions failure_isolated.

(* every component of a reachable state of the product is a reachable state of its own link: all
   per-link theorems (C01 routing, C03 progress, C12, C14, C15, C16 ...) hold for every link of a
   registry with any number of links, whatever the other links do *)
Theorem component_reachable :
  forall callss n rs k s,
    rreachable fixed callss n rs -> nth_error rs k = Some s -> lreachable fixed (nth k callss []) s.
Proof. exact component_reachable_lemma. Qed.
Print Assumptions component_reachable.

(* identity: link k is enumerated exactly between its connect pair and its disconnect pair, nothing
   of it is handled before the connect pair, and enumerated identities are pairwise distinct *)
Theorem enumeration_matches_hooks :
  forall callss n rs k s,
    rreachable fixed callss n rs -> nth_error rs k = Some s ->
    (In k (enumerated rs) <-> rev (hooks_of (evs s)) = [(true, false); (true, true)]) /\
    (rev (hooks_of (evs s)) = [] -> invoked_any (evs s) = false).
Proof. exact enumeration_matches_hooks_lemma. Qed.
Print Assumptions enumeration_matches_hooks.

Theorem enumerated_ids_distinct :
  forall (rid : nat -> N) rs, (forall a b, rid a = rid b -> a = b) -> NoDup (enumerated_ids rid rs).
Proof. exact enumerated_ids_distinct_lemma. Qed.
Print Assumptions enumerated_ids_distinct.

(* non-vacuity: three links, the second one connected and then failed, the third one connected *)
Example product_run :
  exists rs, rreachable fixed [[]; []; []] 3 rs /\ enumerated rs = [2].
Proof.
  eexists. split.
  - exists [(1, Run TSetup, 0); (2, Run TSetup, 0); (1, Env (EFailReadReq 1%N), 0); (1, Env (EFailReadRes 2%N), 0);
            (1, Run TReqLoop, 0); (1, Run TResLoop, 0); (1, Run TSetup, 0)].
    vm_compute. reflexivity.
  - reflexivity.
Qed.
