(* C13 — each link has its own identity; calls and failures never cross links.
   Model: Registry.v, the product of per-link endpoints; a step of one link is a step of that
   component only.  What the links share (closure table, remotes table) is keyed by fresh ids. *)
From Verif Require Import Base Link Registry.

Theorem link_isolation :
  forall v callss rs k c b rs' j,
    rstep v callss rs k c b = Some rs' -> j <> k -> nth_error rs' j = nth_error rs j.
Proof.
  intros v callss rs k c b rs' j H Hne. unfold rstep in H.
  destruct (nth_error rs k) as [s|]; [|discriminate].
  destruct (lstep v (nth k callss []) s c b) as [s'|]; [|discriminate].
  inversion H; subst. apply nth_error_upd_neq. auto.
Qed.
Print Assumptions link_isolation.

(* in particular: whatever happens on link k (fault, cancellation, garbage, handler panic), the fatal
   slot, pending calls and threads of every other link are the same before and after *)
Theorem failure_isolated :
  forall v callss rs k c b rs' j s,
    rstep v callss rs k c b = Some rs' -> j <> k -> nth_error rs j = Some s ->
    exists s', nth_error rs' j = Some s' /\ fatal s' = fatal s /\ bclosed s' = bclosed s /\ threads s' = threads s.
Proof.
  intros v callss rs k c b rs' j s H Hne Hs. exists s. rewrite (link_isolation _ _ _ _ _ _ _ _ H Hne). auto.
Qed.
Print Assumptions failure_isolated.
