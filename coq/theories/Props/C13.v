(* C13 — each link has its own identity; calls and failures never cross links.
   Model: Registry.v, the product of per-link endpoints; a step of one link is a step of that
   component only.  What the links share (closure table, remotes table) is keyed by fresh ids. *)
From Verif Require Import Base Link LinkInvH Registry RegistryProofs LinkInvR LinkInvQ Pair PairProofs Hub HubProofs.

Theorem link_isolation :
  forall v callss rs k c b rs' j,
    rstep v callss rs k c b = Some rs' -> j <> k -> nth_error rs' j = nth_error rs j.
Proof.
  intros v callss rs k c b rs' j H Hne. unfold rstep in H.
  destruct (nth_error rs k) as [s|]; [|discriminate].
  destruct (lstep v (nth k callss []) s c b) as [s'|]; [|discriminate].
  inversion H; subst. apply nth_error_upd_neq. auto.
Qed.
Print Assumptions link_isolation.

(* in particular: whatever happens on link k (fault, cancellation, garbage, handler panic), the fatal
   slot, pending calls and threads of every other link are the same before and after *)
Theorem failure_isolated :
  forall v callss rs k c b rs' j s,
    rstep v callss rs k c b = Some rs' -> j <> k -> nth_error rs j = Some s ->
    exists s', nth_error rs' j = Some s' /\ fatal s' = fatal s /\ bclosed s' = bclosed s /\ threads s' = threads s.
Proof.
  intros v callss rs k c b rs' j s H Hne Hs. exists s. rewrite (link_isolation _ _ _ _ _ _ _ _ H Hne). auto.
Qed.
Print Assumptions failure_isolated.

(* every component of a reachable state of the product is a reachable state of its own link: all
   per-link theorems (C01 routing, C03 progress, C12, C14, C15, C16 ...) hold for every link of a
   registry with any number of links, whatever the other links do *)
Theorem component_reachable :
  forall callss n rs k s,
    rreachable fixed callss n rs -> nth_error rs k = Some s -> lreachable fixed (nth k callss []) s.
Proof. exact component_reachable_lemma. Qed.
Print Assumptions component_reachable.

(* identity: link k is enumerated exactly between its connect pair and its disconnect pair, nothing
   of it is handled before the connect pair, and enumerated identities are pairwise distinct *)
Theorem enumeration_matches_hooks :
  forall callss n rs k s,
    rreachable fixed callss n rs -> nth_error rs k = Some s ->
    (In k (enumerated rs) <-> rev (hooks_of (evs s)) = [(true, false); (true, true)]) /\
    (rev (hooks_of (evs s)) = [] -> invoked_any (evs s) = false).
Proof. exact enumeration_matches_hooks_lemma. Qed.
Print Assumptions enumeration_matches_hooks.

Theorem enumerated_ids_distinct :
  forall (rid : nat -> N) rs, (forall a b, rid a = rid b -> a = b) -> NoDup (enumerated_ids rid rs).
Proof. exact enumerated_ids_distinct_lemma. Qed.
Print Assumptions enumerated_ids_distinct.

(* non-vacuity: three links, the second one connected and then failed, the third one connected *)
Example product_run :
  exists rs, rreachable fixed [[]; []; []] 3 rs /\ enumerated rs = [2].
Proof.
  eexists. split.
  - exists [(1, Run TSetup, 0); (2, Run TSetup, 0); (1, Env (EFailReadReq 1%N), 0); (1, Env (EFailReadRes 2%N), 0);
            (1, Run TReqLoop, 0); (1, Run TResLoop, 0); (1, Run TSetup, 0)].
    vm_compute. reflexivity.
  - reflexivity.
Qed.

(* ---- end to end: the hub as a product of two-endpoint systems (Hub.v): every link of the registry
   with its own peer and its own network ---- *)

(* a step of link k (of the hub's endpoint, of its peer, or of the network between them) changes
   nothing of any other link or its peer: failure or cancellation of one link cannot affect calls in
   flight on the others *)
Theorem other_links_untouched :
  forall fns callsAs callsBs hs k a hs' j,
    hstep fns callsAs callsBs hs k a = Some hs' -> j <> k -> nth_error hs' j = nth_error hs j.
Proof. exact hstep_frame. Qed.
Print Assumptions other_links_untouched.

(* what a call made through the remote of link k returns as coming from the peer is the result of an
   invocation made by peer k, of the function that call named, with that call's own argument *)
Theorem call_answered_by_own_links_peer :
  forall fns callsAs callsBs n hs k p i v r oe,
    hreachable fns callsAs callsBs n hs -> nth_error hs k = Some p ->
    In (EvReturn i v r) (evs (pa p)) -> genuine r = Some oe ->
    exists m x,
      nth_error (dreq p) m = Some i /\
      In (EvInvoked m (fns k i) (c_arg (nth i (nth k callsAs []) dflt_call))) (evs (pb p)) /\
      handler_result (fns k i) (c_arg (nth i (nth k callsAs []) dflt_call)) = Some (x, oe) /\
      v = (if nres1 (nth k callsAs []) i then zero else x).
Proof. exact hub_call_answered_by_own_peer_lemma. Qed.
Print Assumptions call_answered_by_own_links_peer.

(* a peer invokes functions only for request frames written on its own link (never for a call made
   through another link's remote), once per accepted frame *)
Theorem peer_serves_only_its_own_link :
  forall fns callsAs callsBs n hs j p,
    hreachable fns callsAs callsBs n hs -> nth_error hs j = Some p ->
    (forall m f arg, In (EvInvoked m f arg) (evs (pb p)) ->
       exists i, nth_error (dreq p) m = Some i /\ f = fns j i /\ arg = c_arg (nth i (nth j callsAs []) dflt_call) /\
                 In (EvReqWritten i arg (c_closure (nth i (nth j callsAs []) dflt_call))) (evs (pa p))) /\
    NoDup (inv_ids (evs (pb p))) /\ NoDup (res_ids (evs (pb p))).
Proof. exact hub_peer_serves_own_link_lemma. Qed.
Print Assumptions peer_serves_only_its_own_link.

(* non-vacuity: link 0 fails while a call on link 1 is in flight; that call completes with the
   result of its own peer; the call on link 0 fails *)
Theorem one_link_fails_the_other_completes :
  exists p0 p1, hrun hb_fns hb_callsAs [] (hinit 2) hb_sched = Some [p0; p1] /\
    fatal (pa p0) = Some (EInj 9%N) /\ In (EvReturn 0 zero (Some EClosed)) (evs (pa p0)) /\
    fatal (pa p1) = None /\ bclosed (pa p1) = false /\ In (EvReturn 0 21%N (Some (EApp 4%N))) (evs (pa p1)).
Proof. exact hub_example. Qed.
Print Assumptions one_link_fails_the_other_completes.
