(* C08 — behaviour is identical across link APIs, payload types and serializers.
   Proved here (part (a)): the stream API feeds the message-API core exactly the request
   subsequence and the response subsequence of the envelope sequence, in order, complete, and
   ends both with the same decode error.  Part (b), for the argument plumbing: two serializers —
   with possibly different wire payload types — that agree on their own round trips give every
   handler the same arguments, closure identities included ([serializer_independence]): the
   plumbing never looks at a payload except through marshal / unmarshal.  The same for the whole
   endpoint (Link.v carries values abstractly) is by construction of the model; the sweep of the
   check compares real transcripts across 16 configurations. *)
From Verif Require Import Base Stream StreamG StreamGProofs Wire WireProofs.

Theorem stream_is_message_requests :
  forall l, req_view l = map RFrame (requests_of l) ++ match first_err l with Some n => [RFail n] | None => [] end.
Proof.
  induction l as [|[e|n] r IH]; simpl; auto.
  destruct (e_req e); simpl; rewrite IH; reflexivity.
Qed.
Print Assumptions stream_is_message_requests.

Theorem stream_is_message_responses :
  forall l, res_view l = map RFrame (responses_of l) ++ match first_err l with Some n => [RFail n] | None => [] end.
Proof.
  induction l as [|[e|n] r IH]; simpl; auto.
  destruct (e_res e); simpl; rewrite IH; reflexivity.
Qed.
Print Assumptions stream_is_message_responses.

(* an envelope with both members yields both; with neither yields nothing *)
Example both_and_neither :
  req_view [SEnv (mkEnv (Some 1%N) (Some 2%N)); SEnv (mkEnv None None); SErr 9%N] = [RFrame 1%N; RFail 9%N] /\
  res_view [SEnv (mkEnv (Some 1%N) (Some 2%N)); SEnv (mkEnv None None); SErr 9%N] = [RFrame 2%N; RFail 9%N].
Proof. split; reflexivity. Qed.

Theorem serializer_independence :
  forall (value ty payload1 payload2 : Type)
         (marshal1 : value -> payload1) (unmarshal1 : payload1 -> ty -> value) (dflt1 : payload1)
         (marshal2 : value -> payload2) (unmarshal2 : payload2 -> ty -> value) (dflt2 : payload2) (idty : ty),
    (forall v t, unmarshal1 (marshal1 v) t = unmarshal2 (marshal2 v) t) ->
    (forall t, unmarshal1 dflt1 t = unmarshal2 dflt2 t) ->
    forall ctx args ptys, length ptys = length args ->
      map (obs1 value ty payload1 unmarshal1 idty)
          (handler_args value payload1 ty unmarshal1 dflt1 (PCtx ty :: ptys) (request_args value payload1 marshal1 dflt1 (ctx :: args))) =
      map (obs2 value ty payload2 unmarshal2 idty)
          (handler_args value payload2 ty unmarshal2 dflt2 (PCtx ty :: ptys) (request_args value payload2 marshal2 dflt2 (ctx :: args))).
Proof. exact serializer_independence_lemma. Qed.
Print Assumptions serializer_independence.

(* non-vacuity: "JSON-like" payloads (numbers doubled) and "CBOR-like" payloads (pairs) *)
Example two_serializers :
  map (obs1 nat nat nat (fun p t => p / 2 + t) 0)
      (handler_args nat nat nat (fun p t => p / 2 + t) 0 [PCtx nat; PData nat 100; PFunc nat]
                    (request_args nat nat (fun v => v * 2) 0 [CCtx nat; CData nat 1; CFunc nat 7])) =
  map (obs2 nat nat (nat * bool) (fun p t => fst p + t) 0)
      (handler_args nat (nat * bool) nat (fun p t => fst p + t) (0, false) [PCtx nat; PData nat 100; PFunc nat]
                    (request_args nat (nat * bool) (fun v => (v, true)) (0, false) [CCtx nat; CData nat 1; CFunc nat 7])).
Proof. reflexivity. Qed.

(* ---- the same at goroutine level (StreamG.v: decode goroutine, two unbuffered channels, two read functions,
   decodeDone, the link context; every interleaving, either variant): what the read functions have returned so
   far is, in order, a prefix of the request members resp. of the response members of the envelope sequence -
   the message-API view of the same traffic - and nothing is lost once the input has been consumed ---- *)
Theorem stream_goroutines_refine_the_views :
  forall v input s, greachable v input s ->
    (exists rest, requests_of input = rev (frames (outq s)) ++ rest) /\
    (exists rest, responses_of input = rev (frames (outs s)) ++ rest).
Proof. exact stream_refines_lemma. Qed.
Print Assumptions stream_goroutines_refine_the_views.

Theorem stream_goroutines_lose_nothing :
  forall v input s, greachable v input s -> inp s = [] -> dec s = DRead ->
    requests_of input = rev (frames (outq s)) /\ responses_of input = rev (frames (outs s)).
Proof. exact stream_complete_lemma. Qed.
Print Assumptions stream_goroutines_lose_nothing.

(* non-vacuity: a combined envelope, a keep-alive envelope and a request-only envelope, fully consumed *)
Example stream_run :
  exists s, grun fixed (ginit [SEnv (mkEnv (Some 1%N) (Some 2%N)); SEnv (mkEnv None None); SEnv (mkEnv (Some 3%N) None)])
                 [AReadReq; AReadRes; ADecode; AHandReq; AHandRes; ADecode; ADecode; AReadReq; AHandReq] = Some s /\
            inp s = [] /\ dec s = DRead /\ outq s = [RFrame 3%N; RFrame 1%N] /\ outs s = [RFrame 2%N].
Proof. eexists. split; [vm_compute; reflexivity|]. vm_compute. auto. Qed.
