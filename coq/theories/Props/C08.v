(* C08 — behaviour is identical across link APIs, payload types and serializers.
   Proved here (part (a)): the stream API feeds the message-API core exactly the request
   subsequence and the response subsequence of the envelope sequence, in order, complete, and
   ends both with the same decode error.  Part (b) (serializer parametricity) is NOT a Coq
   theorem: the endpoint models never inspect a payload except through the section parameters
   marshal / unmarshal (Wire.v), and the claim is decided by the configuration sweep of the check
   (level note). *)
From Verif Require Import Base Stream.

Theorem stream_is_message_requests :
  forall l, req_view l = map RFrame (requests_of l) ++ match first_err l with Some n => [RFail n] | None => [] end.
Proof.
  induction l as [|[e|n] r IH]; simpl; auto.
  destruct (e_req e); simpl; rewrite IH; reflexivity.
Qed.
Print Assumptions stream_is_message_requests.

Theorem stream_is_message_responses :
  forall l, res_view l = map RFrame (responses_of l) ++ match first_err l with Some n => [RFail n] | None => [] end.
Proof.
  induction l as [|[e|n] r IH]; simpl; auto.
  destruct (e_res e); simpl; rewrite IH; reflexivity.
Qed.
Print Assumptions stream_is_message_responses.

(* an envelope with both members yields both; with neither yields nothing *)
Example both_and_neither :
  req_view [SEnv (mkEnv (Some 1%N) (Some 2%N)); SEnv (mkEnv None None); SErr 9%N] = [RFrame 1%N; RFail 9%N] /\
  res_view [SEnv (mkEnv (Some 1%N) (Some 2%N)); SEnv (mkEnv None None); SErr 9%N] = [RFrame 2%N; RFail 9%N].
Proof. split; reflexivity. Qed.
