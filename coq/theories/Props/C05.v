(* C05 — no timing of completion, cancel, late responses or shutdown crashes or deadlocks panrpc.
   The crash causes the models know: send on a closed channel / close of a closed channel
   (Bcast.v, the only place where panrpc closes or sends on shared channels), a panic outside a
   recovered path, a result-arity mismatch of a stub (Link.v: the recover path always yields the
   declared number of results — [CReturned] carries a value and an error for both arities). *)
From Verif Require Import Base Bcast BcastProofs Link LinkProofs LinkInv16 LinkInvB Regions RegionsProofs Stream StreamG StreamGProofs.

(* The pending-call table (Broadcaster) never crashes, for all client programs and schedules —
   in particular for the registry's use of it: waiter Receive/receive/Free, publisher Publish,
   setErr Close, per-call and link cancellation. *)
Theorem table_no_crash :
  forall progs s, Bcast.reachable fixed progs s -> Bcast.crashed s = false.
Proof. exact bc_no_crash_lemma. Qed.
Print Assumptions table_no_crash.

(* No schedule, fault sequence, cancellation or peer input drives the endpoint model into its
   crash state, in either variant of the endpoint (the endpoint's own steps contain no crash
   transition: every panic of application code is recovered — next theorem). *)
Theorem endpoint_no_crash :
  forall v calls s, lreachable v calls s -> Link.crashed s = false.
Proof. exact lno_crash_lemma. Qed.
Print Assumptions endpoint_no_crash.

(* A panicking handler is contained: its step is defined and yields the first half of setErr
   (the link ends with the panic as its error), not a crash. *)
Theorem handler_panic_contained :
  forall calls s n arg,
    Link.crashed s = false -> tget (threads s) (THandler n) = Some (HStart FPanic arg) ->
    lstep fixed calls s (Run (THandler n)) 0 =
    Some (begin_seterr calls (with_ev s (EvInvoked n FPanic arg)) (THandler n) EPanic KDone).
Proof. intros calls s n arg Hc Ht. unfold lstep. rewrite Hc, Ht. reflexivity. Qed.
Print Assumptions handler_panic_contained.

(* The tree as found crashes (D1): see Props/C19.v D1_refuted, restated here. *)
Theorem D1_refuted_C05 :
  exists progs cs s, Bcast.run legacy (Bcast.init progs) cs = Some s /\ Bcast.crashed s = true.
Proof.
  exists [[Receive 1%N 1%N]; [Publish 1%N 7%N]; [Free 1%N]], [(0, 0); (1, 0); (2, 0); (1, 1)].
  eexists. split; [vm_compute; reflexivity|reflexivity].
Qed.
Print Assumptions D1_refuted_C05.

(* no internal deadlock: in every reachable state of the endpoint a blocked infrastructure thread
   still has a wake-up source that can fire (see Props/C03.v nobody_waits_in_vain for the reading) *)
Theorem no_internal_deadlock :
  forall calls s, lreachable fixed calls s ->
    (forall i, tget (threads s) (TCall i) = Some CBlocked -> waiter_alive (tget (threads s) (TWaiter i)) = true) /\
    (forall i ent, tget (threads s) (TWaiter i) = Some (WBlocked ent) ->
       memN (c_ctx (nth i calls dflt_call)) (cancelled s) = false /\ le_done (ents s) (cancelled s) ent = false) /\
    (forall n ent x e, tget (threads s) (TPub n) = Some (PBlocked ent x e) -> le_done (ents s) (cancelled s) ent = false) /\
    (forall i n ent x e, tget (threads s) (TWaiter i) = Some (WBlocked ent) -> tget (threads s) (TPub n) = Some (PBlocked ent x e) -> False).
Proof.
  intros calls s Hr. destruct (InvB_reachable calls s Hr) as ((H1 & H3 & H4) & HE). repeat split.
  - exact H1.
  - apply (HE _ _ H).
  - apply (HE _ _ H).
  - intros n ent x e H. apply (HE _ _ H).
  - exact H3.
Qed.
Print Assumptions no_internal_deadlock.

(* ---- deadlocks on panrpc's mutexes (the models above have no mutexes: their steps are the critical
   sections).  The table of critical sections is re-extracted from the sources on every run (tools/regions,
   go/ast) and [regions_ok table = true] is re-checked by vm_compute (work/C05/RegionTable.v).  For every
   table that satisfies the discipline, over all threads that nest critical sections as the table permits
   (application code running as a hook or enumeration callback may re-enter panrpc for calls and closures;
   it does not link or enumerate the same registry - the documented restriction, which is also the
   exclusion of C02's quantifier): *)

(* no cycle of threads each waiting for a mutex the next one holds *)
Theorem no_mutex_deadlock :
  forall tbl l, regions_ok tbl = true -> Forall (treach tbl) l -> ~ wait_cycle l.
Proof. exact no_wait_cycle_lemma. Qed.
Print Assumptions no_mutex_deadlock.

(* the mutex a thread waits for outranks every mutex it holds *)
Theorem lock_order :
  forall tbl t m r, regions_ok tbl = true -> treach tbl t -> want t = Some m -> In r (stack t) ->
    rank (r_mutex r) < rank m.
Proof. exact ranks_lemma. Qed.
Print Assumptions lock_order.

(* a thread inside a critical section of the Broadcaster, the closure table or the fatal-error slot waits
   for no mutex, runs no code but panrpc's own and the standard library's, and performs no blocking
   operation (other than waiting on the section's own condition variable, which releases the mutex): the
   section is a closed, finite piece of code - the side condition under which Link.v and Bcast.v take the
   operations on these tables as atomic steps, and under which a thread waiting for such a mutex gets it *)
Theorem leaf_sections_closed :
  forall tbl t r st, regions_ok tbl = true -> treach tbl t -> stack t = r :: st -> rank (r_mutex r) = 1 ->
    want t = None /\ r_dynamic r = [] /\ forallb is_own_wait (r_blocking r) = true /\ r_inner r = 0.
Proof. exact leaf_sections_closed_lemma. Qed.
Print Assumptions leaf_sections_closed.

(* non-vacuity: the table of the tree as given satisfies the discipline and admits a thread two sections
   deep (an enumeration callback making a call that registers a closure); tables with the shapes of seeded
   changes are rejected: the closure table's lock held across the invocation of the closure, the enumeration
   releasing without defer, a failure path that takes the registry's lock again *)
Definition table_as_given : list region :=
  [mkRegion (MLeaf 0) SOther false [] [] 0; mkRegion (MLeaf 1) SOther false [] [] 0;
   mkRegion (MLeaf 2) SOther false [] [BCondWaitOwn] 0; mkRegion (MLeaf 2) SOther false [] [] 0;
   mkRegion MOuter SSetup false [DHook; DHook] [] 0; mkRegion MOuter STeardown false [DHook; DHook] [] 0;
   mkRegion MOuter SEnumerate true [DCallback] [] 0].
Example table_as_given_ok : regions_ok table_as_given = true.
Proof. reflexivity. Qed.
Example two_deep_reachable :
  treach table_as_given (mkT [mkRegion (MLeaf 1) SOther false [] [] 0; mkRegion MOuter SEnumerate true [DCallback] [] 0] None).
Proof.
  eapply TR_enter; [|simpl; right; left; reflexivity|reflexivity].
  apply TR_app_want; [|simpl; congruence].
  eapply TR_enter; [|simpl; do 6 right; left; reflexivity|reflexivity].
  apply TR_want_outside. apply TR_idle.
Qed.
Example closure_run_under_lock_rejected : regions_ok [mkRegion (MLeaf 1) SOther true [DOther] [] 0] = false.
Proof. reflexivity. Qed.
Example enumeration_without_defer_rejected : regions_ok [mkRegion MOuter SEnumerate false [DCallback] [] 0] = false.
Proof. reflexivity. Qed.
Example outer_lock_on_failure_path_rejected : regions_ok [mkRegion MOuter SOther false [] [] 0] = false.
Proof. reflexivity. Qed.
Example send_under_lock_rejected : regions_ok [mkRegion (MLeaf 0) SOther false [] [BOther] 0] = false.
Proof. reflexivity. Qed.

(* ---- the stream API closes decodeDone exactly once (a second close would panic in a goroutine nobody recovers):
   in every reachable state of StreamG.v in which it is closed the decode goroutine has exited, and no step closes
   it again or changes the error the readers get ---- *)
Theorem stream_done_closed_once :
  forall v input s a s', greachable v input s -> gstep v s a = Some s' -> gdone s <> None ->
    gdone s' = gdone s /\ dec s' = DExit.
Proof. exact done_closed_once_lemma. Qed.
Print Assumptions stream_done_closed_once.
