(* C05 — no timing of completion, cancel, late responses or shutdown crashes or deadlocks panrpc.
   The crash causes the models know: send on a closed channel / close of a closed channel
   (Bcast.v, the only place where panrpc closes or sends on shared channels), a panic outside a
   recovered path, a result-arity mismatch of a stub (Link.v: the recover path always yields the
   declared number of results — [CReturned] carries a value and an error for both arities). *)
From Verif Require Import Base Bcast BcastProofs Link LinkProofs LinkInv16 LinkInvB.

(* The pending-call table (Broadcaster) never crashes, for all client programs and schedules —
   in particular for the registry's use of it: waiter Receive/receive/Free, publisher Publish,
   setErr Close, per-call and link cancellation. *)
Theorem table_no_crash :
  forall progs s, Bcast.reachable fixed progs s -> Bcast.crashed s = false.
Proof. exact bc_no_crash_lemma. Qed.
Print Assumptions table_no_crash.

(* No schedule, fault sequence, cancellation or peer input drives the endpoint model into its
   crash state, in either variant of the endpoint (the endpoint's own steps contain no crash
   transition: every panic of application code is recovered — next theorem). *)
Theorem endpoint_no_crash :
  forall v calls s, lreachable v calls s -> Link.crashed s = false.
Proof. exact lno_crash_lemma. Qed.
Print Assumptions endpoint_no_crash.

(* A panicking handler is contained: its step is defined and yields the first half of setErr
   (the link ends with the panic as its error), not a crash. *)
Theorem handler_panic_contained :
  forall calls s n arg,
    Link.crashed s = false -> tget (threads s) (THandler n) = Some (HStart FPanic arg) ->
    lstep fixed calls s (Run (THandler n)) 0 =
    Some (begin_seterr calls (with_ev s (EvInvoked n FPanic arg)) (THandler n) EPanic KDone).
Proof. intros calls s n arg Hc Ht. unfold lstep. rewrite Hc, Ht. reflexivity. Qed.
Print Assumptions handler_panic_contained.

(* The tree as found crashes (D1): see Props/C19.v D1_refuted, restated here. *)
Theorem D1_refuted_C05 :
  exists progs cs s, Bcast.run legacy (Bcast.init progs) cs = Some s /\ Bcast.crashed s = true.
Proof.
  exists [[Receive 1%N 1%N]; [Publish 1%N 7%N]; [Free 1%N]], [(0, 0); (1, 0); (2, 0); (1, 1)].
  eexists. split; [vm_compute; reflexivity|reflexivity].
Qed.
Print Assumptions D1_refuted_C05.

(* no internal deadlock: in every reachable state of the endpoint a blocked infrastructure thread
   still has a wake-up source that can fire (see Props/C03.v nobody_waits_in_vain for the reading) *)
Theorem no_internal_deadlock :
  forall calls s, lreachable fixed calls s ->
    (forall i, tget (threads s) (TCall i) = Some CBlocked -> waiter_alive (tget (threads s) (TWaiter i)) = true) /\
    (forall i ent, tget (threads s) (TWaiter i) = Some (WBlocked ent) ->
       memN (c_ctx (nth i calls dflt_call)) (cancelled s) = false /\ le_done (ents s) (cancelled s) ent = false) /\
    (forall n ent x e, tget (threads s) (TPub n) = Some (PBlocked ent x e) -> le_done (ents s) (cancelled s) ent = false) /\
    (forall i n ent x e, tget (threads s) (TWaiter i) = Some (WBlocked ent) -> tget (threads s) (TPub n) = Some (PBlocked ent x e) -> False).
Proof.
  intros calls s Hr. destruct (InvB_reachable calls s Hr) as ((H1 & H3 & H4) & HE). repeat split.
  - exact H1.
  - apply (HE _ _ H).
  - apply (HE _ _ H).
  - intros n ent x e H. apply (HE _ _ H).
  - exact H3.
Qed.
Print Assumptions no_internal_deadlock.
