(* C04 — cancelling one call's context ends only that call, promptly.
   Proved here: cancelling a per-call context changes nothing of the link but the cancelled set and
   the threads that were waiting on that context (frame property), the cancelled call's waiter
   wakes with that context's error, and a late response for an id without a live entry is discarded
   without effect; and over ALL reachable states: a blocked call whose context is cancelled returns after
   at most four steps of its own waiter and itself, with a zero value and a non-nil error when no
   response had reached its waiter. *)
From Verif Require Import Base Link LinkProofs LinkInv16 LinkInvB LinkInvT LinkProgress LinkHealthy LinkFrame.

Theorem cancel_frame :
  forall calls s c,
    memN c (cancelled s) = false ->
    exists s', step_env fixed calls s (ECancel c) = Some s' /\
               fatal s' = fatal s /\ bclosed s' = bclosed s /\ tbl s' = tbl s /\ ents s' = ents s /\
               evs s' = evs s /\ closures s' = closures s /\ remotes s' = remotes s /\
               cancelled s' = c :: cancelled s.
Proof.
  intros calls s c Hc. unfold step_env. rewrite Hc. eexists; split; [reflexivity|]. repeat split.
Qed.
Print Assumptions cancel_frame.

Theorem cancelled_waiter_wakes_with_ctx_error :
  forall calls s c i ent,
    memN c (cancelled s) = false -> tget (threads s) (TWaiter i) = Some (WBlocked ent) ->
    c_ctx (nth i calls (mkCall 0 1 false 0)) = c ->
    exists s', step_env fixed calls s (ECancel c) = Some s' /\
               tget (threads s') (TWaiter i) = Some (WWoke (WCancelled (ECtx c))).
Proof.
  intros calls s c i ent Hc Ht Hctx. unfold step_env. rewrite Hc. eexists; split; [reflexivity|].
  unfold wake; simpl. rewrite tget_map_wake_gen, Ht. simpl. rewrite Hctx. simpl.
  rewrite N.eqb_refl. reflexivity.
Qed.
Print Assumptions cancelled_waiter_wakes_with_ctx_error.

Theorem other_waiters_untouched :
  forall calls s c j ent,
    memN c (cancelled s) = false -> tget (threads s) (TWaiter j) = Some (WBlocked ent) ->
    c_ctx (nth j calls (mkCall 0 1 false 0)) <> c ->
    memN (c_ctx (nth j calls (mkCall 0 1 false 0))) (cancelled s) = false ->
    le_done (ents s) (c :: cancelled s) ent = false ->
    exists s', step_env fixed calls s (ECancel c) = Some s' /\
               tget (threads s') (TWaiter j) = Some (WBlocked ent).
Proof.
  intros calls s c j ent Hc Ht Hne Hnc Hd. unfold step_env. rewrite Hc. eexists; split; [reflexivity|].
  unfold wake; simpl. rewrite tget_map_wake_gen, Ht. simpl.
  assert (E : N.eqb (c_ctx (nth j calls (mkCall 0 1 false 0))) c = false) by (apply N.eqb_neq; auto).
  rewrite E, Hnc. simpl. rewrite Hd. reflexivity.
Qed.
Print Assumptions other_waiters_untouched.

Theorem late_response_discarded :
  forall s n id x e,
    lookupN id (tbl s) = None ->
    step_pub s n (PEnter id x e) 0 = Some (with_ev (setT s (TPub n) Finished) (EvDiscard id)).
Proof. intros s n id x e H. unfold step_pub. simpl. destruct (bclosed s); [reflexivity|]. rewrite H. reflexivity. Qed.
Print Assumptions late_response_discarded.

Theorem cancelled_call_returns :
  forall calls s i,
    lreachable fixed calls s -> memN (c_ctx (nth i calls dflt_call)) (cancelled s) = true ->
    tget (threads s) (TCall i) = Some CBlocked ->
    exists cs s' v e, length cs <= 4 /\ own_steps i cs /\ lrun fixed calls s cs = Some s' /\
                      tget (threads s') (TCall i) = Some (CReturned v e) /\
                      ((exists ent, tget (threads s) (TWaiter i) = Some (WStart ent)) ->
                       v = zero /\ exists e0, e = Some e0).
Proof. exact cancelled_call_returns_lemma. Qed.
Print Assumptions cancelled_call_returns.

(* the general statement: a started call whose own context is cancelled returns within six steps of
   its own waiter and itself wherever it currently is *)
Theorem cancelled_call_returns_from_anywhere :
  forall calls s i st,
    lreachable fixed calls s -> memN (c_ctx (nth i calls dflt_call)) (cancelled s) = true ->
    tget (threads s) (TCall i) = Some st ->
    exists cs s' v e, length cs <= 6 /\ own_steps i cs /\ lrun fixed calls s cs = Some s' /\
                      tget (threads s') (TCall i) = Some (CReturned v e).
Proof. exact cancelled_started_call_returns_lemma. Qed.
Print Assumptions cancelled_call_returns_from_anywhere.

(* "The link stays healthy": cancelling per-call contexts (any number, at any time) is a benign
   choice of the environment, and in every benign run the link is up, nothing was reported and Link
   has not returned (LinkHealthy.v; the witness run in Props/C16.v cancels a call and then delivers
   the late response, which is discarded) *)
Theorem call_cancellation_is_benign :
  forall c, c <> 0%N -> benign (Env (ECancel c)) = true.
Proof. intros c Hc. simpl. destruct c; [contradiction|reflexivity]. Qed.
Print Assumptions call_cancellation_is_benign.

Theorem link_stays_up_under_call_cancellation :
  forall calls cs s,
    lrun fixed calls linit cs = Some s -> forallb (fun c => benign (fst c)) cs = true ->
    bclosed s = false /\ fatal s = None /\
    (forall e, ~ In (EvReport e) (evs s)) /\ (forall e, ~ In (EvLinkReturn e) (evs s)) /\
    (tget (threads s) TLink = Some LBeforeRead \/ tget (threads s) TLink = Some LWaiting).
Proof. exact healthy_link_stays_up_lemma. Qed.
Print Assumptions link_stays_up_under_call_cancellation.

(* "ends only that call", over whole schedules: another call that waits for its response (its waiter
   goroutine not yet run) is not moved by ANY step that is not its own waiter's - in particular not by
   the cancellation of any per-call context (its own included: it is the waiter that notices that), nor
   by late responses, frees and wake-ups of other calls; only cancelling the LINK context reaches it *)
Theorem other_waiting_calls_undisturbed :
  forall calls i ent cs s s',
    KeepC i ent s -> Forall (spares_caller i) cs -> lrun fixed calls s cs = Some s' -> KeepC i ent s'.
Proof. exact waiting_caller_undisturbed_lemma. Qed.
Print Assumptions other_waiting_calls_undisturbed.
