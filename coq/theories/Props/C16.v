(* C16 — Link blocks while healthy and returns the first fatal error when it ends.
   Model: Link.v (one endpoint, all schedules, all environment behaviours incl. faults,
   cancellations, garbage frames).  Only statements; proofs in LinkInv16.v. *)
From Verif Require Import Base Link LinkProofs LinkInv16 LinkInvE LinkHealthy.

(* Whatever Link returns is the error of the FIRST report (the first setErr whose store reached
   the slot) — never a later, consequential one, and never while no error has been reported:
   [first_report] is [None] on a healthy link, so a return implies a report. *)
Theorem link_returns_first :
  forall calls s e,
    lreachable fixed calls s -> In (EvLinkReturn e) (evs s) -> first_report (evs s) = Some e.
Proof. exact link_returns_first_lemma. Qed.
Print Assumptions link_returns_first.

(* Once an error has been reported Link is never left waiting: it is not blocked on the condition
   variable, and if it has not yet read the slot its own next step makes it return that first
   error — no step of any handler, reader, peer or transport is needed. *)
Theorem link_return_needs_nobody :
  forall calls s e,
    lreachable fixed calls s -> first_report (evs s) = Some e ->
    tget (threads s) TLink <> Some LWaiting /\
    (forall e', tget (threads s) TLink = Some (LReturn e') -> e' = e) /\
    (tget (threads s) TLink = Some LBeforeRead ->
     exists s', lstep fixed calls s (Run TLink) 0 = Some s' /\ tget (threads s') TLink = Some (LReturn e)).
Proof. exact link_not_blocked_once_ended_lemma. Qed.
Print Assumptions link_return_needs_nobody.

(* The tree as found (setErr overwrites the slot) returns a later error: two reader failures are
   reported before Link reads.  Replayed on the real code by corpus/ep/d4-*.json. *)
Theorem D4_refuted :
  exists calls cs s e1 e2,
    lrun legacy calls linit cs = Some s /\ first_report (evs s) = Some e1 /\
    In (EvLinkReturn e2) (evs s) /\ e1 <> e2.
Proof.
  exists [], [(Run TSetup, 0); (Env (EFailReadRes 1%N), 0); (Run TResLoop, 0);
              (Env (EFailReadReq 2%N), 0); (Run TReqLoop, 0); (Run TLink, 0); (Run TLink, 0)].
  eexists. exists (EInj 1%N), (EInj 2%N).
  split; [vm_compute; reflexivity|]. split; [reflexivity|]. split; [simpl; auto|discriminate].
Qed.
Print Assumptions D4_refuted.

(* Non-vacuity: a reachable state in which Link has returned. *)
Example link_return_reachable :
  exists s, lreachable fixed [] s /\ In (EvLinkReturn (ECtx 0%N)) (evs s).
Proof.
  eexists. split.
  - exists [(Run TLink, 0); (Env (ECancel 0%N), 0); (Run TWatcher, 0); (Run TWatcher, 0); (Run TLink, 0)].
    vm_compute. reflexivity.
  - simpl. auto.
Qed.

(* ... and that first report is never the consequential 'closed' error of a call that was made on
   the already ended link: in the repaired tree such a call fails without reporting anything
   (C03 [call_after_end_fails]), so no report of ErrClosed is ever made.  D8: in the tree as found
   it raced the failure that had ended the link for the fatal slot and could win. *)
Theorem link_never_returns_closed :
  forall calls s e,
    lreachable fixed calls s -> In (EvLinkReturn e) (evs s) -> e <> EClosed /\ first_report (evs s) = Some e.
Proof. exact link_never_returns_closed_lemma. Qed.
Print Assumptions link_never_returns_closed.

Theorem D8_refuted :
  exists calls cs s,
    lrun {| close_chan_on_free := false; res_unbuffered := false; decoder_send_unguarded := false;
            overwrite_fatal := false; no_link_hooks := false; resolve_unchecked_nil := false;
            convert_unchecked_nil := false; report_closed := true |} calls linit cs = Some s /\
    In (EvLinkReturn EClosed) (evs s) /\ In (EvReport (EInj 1%N)) (evs s).
Proof. exact D8_refuted_lemma. Qed.
Print Assumptions D8_refuted.

(* first clause of the property: Link does not return while the link is healthy.  For every run in
   which nothing goes wrong — [benign] excludes exactly: cancelling the link context, a failing read,
   an undecodable frame, an armed transport/serializer fault, a request naming a function that does
   not exist or passing the wrong number/kind of arguments, a panicking handler — whatever else
   happens (any traffic in both directions, application errors, per-call cancellations, late,
   duplicate and unknown responses): nothing is reported, the pending-call table is open, the fatal
   slot is empty, and the goroutine that called Link is before its read of the slot or waiting *)
Theorem link_blocks_while_healthy :
  forall calls cs s,
    lrun fixed calls linit cs = Some s -> forallb (fun c => benign (fst c)) cs = true ->
    bclosed s = false /\ fatal s = None /\
    (forall e, ~ In (EvReport e) (evs s)) /\ (forall e, ~ In (EvLinkReturn e) (evs s)) /\
    (tget (threads s) TLink = Some LBeforeRead \/ tget (threads s) TLink = Some LWaiting).
Proof. exact healthy_link_stays_up_lemma. Qed.
Print Assumptions link_blocks_while_healthy.

Theorem healthy_run_with_application_errors :
  exists s, lrun fixed hl_calls linit hl_schedule = Some s /\
            forallb (fun c => benign (fst c)) hl_schedule = true /\
            In (EvResWritten 0 8%N (Some 3%N)) (evs s) /\
            In (EvReturn 0 70%N (Some (EApp 5%N))) (evs s) /\
            In (EvReturn 1 zero (Some (ECtx 2%N))) (evs s) /\
            In (EvDiscard 1%N) (evs s) /\
            tget (threads s) TLink = Some LWaiting.
Proof. exact healthy_run_example. Qed.
Print Assumptions healthy_run_with_application_errors.
