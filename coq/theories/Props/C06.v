(* C06 — arbitrary peer input never crashes the process or wedges other links.
   (1) function names: Resolve.v — for every object graph, name string and argument count the
   lookup is total and, in the repaired tree, can only "crash" if calling the resolved method value
   itself would (excluded for the zoo by the finite check [invoke_total], re-evaluated every run).
   (2) frames: Link.v — every environment input (garbage frame, read error, unknown function,
   wrong arity, undecodable argument, unknown / duplicate call id) has a defined step whose
   effect is a report on this link or a discarded response; never the crash state. *)
From Coq Require Import String.
From Verif Require Import Base Resolve ResolveProofs Link LinkProofs LinkInv16.

Theorem peer_names_never_crash :
  forall tys root name argc,
    resolve fixed tys root name argc = OCrash ->
    exists f ro m, walk fixed tys root false (removelast (split_dot name)) = WOk f ro /\
                   m = last_str (split_dot name) /\ invoke tys 20 f m = OCrash.
Proof. exact resolve_crash_only_from_invoke. Qed.
Print Assumptions peer_names_never_crash.

Theorem peer_frames_never_crash :
  forall v calls s, lreachable v calls s -> Link.crashed s = false.
Proof. exact lno_crash_lemma. Qed.
Print Assumptions peer_frames_never_crash.

(* the tree as found crashes on a method of a nil interface-typed field (D6) *)
Theorem D6_refuted :
  exists tys root name argc, resolve legacy tys root name argc = OCrash.
Proof.
  exists [mkT "S" KStruct 0 [("F", true)] [("F", [0])] [] [] []; mkT "I" KIface 0 [] [] [] [] [("Do", 1)]],
         (VStruct 0 "s" [VIface 1 None]), "F.Do"%string, 0.
  vm_compute. reflexivity.
Qed.
Print Assumptions D6_refuted.
