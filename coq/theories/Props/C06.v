(* C06 — arbitrary peer input never crashes the process or wedges other links.
   (1) function names: Resolve.v — for every object graph, name string and argument count the
   lookup is total and, in the repaired tree, can only "crash" if calling the resolved method value
   itself would (excluded for the zoo by the finite check [invoke_total], re-evaluated every run).
   (2) frames: Link.v — every environment input (garbage frame, read error, unknown function,
   wrong arity, undecodable argument, unknown / duplicate call id) has a defined step whose
   effect is a report on this link or a discarded response; never the crash state.
   (3) other links: Hub.v — whatever a peer sends on its link (any choice of that component, garbage
   frames and bad names included) changes nothing of any other link of the registry or its peer. *)
From Coq Require Import String.
From Verif Require Import Base Resolve ResolveProofs Link LinkProofs LinkInv16 Pair Hub HubProofs.

Theorem peer_names_never_crash :
  forall tys root name argc,
    resolve fixed tys root name argc = OCrash ->
    exists f ro m, walk fixed tys root false (removelast (split_dot name)) = WOk f ro /\
                   m = last_str (split_dot name) /\ invoke tys 20 f m = OCrash.
Proof. exact resolve_crash_only_from_invoke. Qed.
Print Assumptions peer_names_never_crash.

Theorem peer_frames_never_crash :
  forall v calls s, lreachable v calls s -> Link.crashed s = false.
Proof. exact lno_crash_lemma. Qed.
Print Assumptions peer_frames_never_crash.

(* the tree as found crashes on a method of a nil interface-typed field (D6) *)
Theorem D6_refuted :
  exists tys root name argc, resolve legacy tys root name argc = OCrash.
Proof.
  exists [mkT "S" KStruct 0 [("F", true)] [("F", [0])] [] [] []; mkT "I" KIface 0 [] [] [] [] [("Do", 1)]],
         (VStruct 0 "s" [VIface 1 None]), "F.Do"%string, 0.
  vm_compute. reflexivity.
Qed.
Print Assumptions D6_refuted.

(* whatever happens on link k - every environment choice of that component, incl. undecodable
   frames, unknown function names, wrong arities, failing reads, and every step of its (possibly
   malicious) peer - leaves every other link of the registry and its peer exactly as it was *)
Theorem bad_input_is_confined_to_its_link :
  forall fns callsAs callsBs hs k a hs' j,
    hstep fns callsAs callsBs hs k a = Some hs' -> j <> k -> nth_error hs' j = nth_error hs j.
Proof. exact hstep_frame. Qed.
Print Assumptions bad_input_is_confined_to_its_link.

(* ... and no sequence of such choices reaches a crash state on any link *)
Theorem hub_never_crashes :
  forall fns callsAs callsBs n hs k p,
    hreachable fns callsAs callsBs n hs -> nth_error hs k = Some p ->
    Link.crashed (pa p) = false /\ Link.crashed (pb p) = false.
Proof. exact hub_never_crashes_lemma. Qed.
Print Assumptions hub_never_crashes.
