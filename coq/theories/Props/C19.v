(* C19 — the publish/receive utility hands each value to one waiter and is safe to race.
   Only statements, each closed by [exact] of a lemma proved in BcastProofs.v. *)
From Verif Require Import Base Bcast BcastProofs.

(* No schedule of any client programs (any number of threads, keys, contexts; publish, receive,
   free, close, cancel in any order and repetition) crashes the broadcaster. *)
Theorem bc_no_crash :
  forall progs s, reachable fixed progs s -> crashed s = false.
Proof. exact bc_no_crash_lemma. Qed.
Print Assumptions bc_no_crash.

(* A publish that has not returned is parked for a reason: its key is still registered (not freed,
   broadcaster not closed, the registering context not done) and no receiver is waiting on it.
   Contrapositive: once the value can be delivered, or the key is freed, its context done or the
   broadcaster closed, Publish is not blocked. *)
Theorem bc_publish_returns :
  forall progs s t th k e x p,
    reachable fixed progs s -> nth_error (thr s) t = Some th -> pc th = PubBlocked k e x p ->
    entry_done s e = false /\
    (forall t' th' k' c, nth_error (thr s) t' = Some th' -> pc th' <> RecvBlocked k' e c).
Proof. exact bc_publish_blocked_only_if_nothing_applies. Qed.
Print Assumptions bc_publish_returns.

(* ... and immediately (in its first step) for unknown keys and closed broadcasters, in any state
   of either variant. *)
Theorem bc_publish_unknown_immediate :
  forall v s t th k x rest,
    crashed s = false -> nth_error (thr s) t = Some th -> pc th = Idle -> todo th = Publish k x :: rest ->
    closed s = true \/ lookupN k (tbl s) = None ->
    exists s', bstep v s t 0 = Some s' /\
               exists th', nth_error (thr s') t = Some th' /\ pc th' = Idle /\ todo th' = rest /\
                           results th' = RPubNone :: results th.
Proof. exact bc_publish_unknown_returns_immediately. Qed.
Print Assumptions bc_publish_unknown_immediate.

(* A receive function that has not returned is parked for a reason: its context is not done, its
   key has not been freed, the broadcaster is not closed, and no publisher is waiting on its key. *)
Theorem bc_receive_returns :
  forall progs s t th k e c,
    reachable fixed progs s -> nth_error (thr s) t = Some th -> pc th = RecvBlocked k e c ->
    memN c (cancelled s) = false /\ entry_done s e = false /\
    (forall t' th' k' x p, nth_error (thr s) t' = Some th' -> pc th' <> PubBlocked k' e x p).
Proof. exact bc_receive_blocked_only_if_nothing_applies. Qed.
Print Assumptions bc_receive_returns.

(* A value published on a key is delivered to at most one receiver and never to another key: in
   every reachable state the delivery events have pairwise different publish instances, and each
   delivery's receiver key equals the key of that publish instance and carries its value. *)
Theorem bc_delivery_injective :
  forall progs s,
    reachable fixed progs s ->
    NoDup (delivered (log s)) /\
    (forall p kp kr x r, In (EvDeliver p kp kr x r) (log s) -> kp = kr /\ In (EvPubStart p kp x) (log s)).
Proof. exact bc_delivery_injective_lemma. Qed.
Print Assumptions bc_delivery_injective.

(* Free, Close and Cancel complete in one step in every non-crashed state: they can be called
   concurrently and repeatedly, in any order, without blocking. *)
Theorem bc_admin_never_blocks :
  forall v s t th op rest,
    crashed s = false -> nth_error (thr s) t = Some th -> pc th = Idle -> todo th = op :: rest ->
    is_admin op = true ->
    exists s', bstep v s t 0 = Some s' /\
               exists th', nth_error (thr s') t = Some th' /\ pc th' = Idle /\ todo th' = rest /\
                           results th' = RUnit :: results th.
Proof. exact bc_admin_ops_always_complete. Qed.
Print Assumptions bc_admin_never_blocks.

(* The tree as found (variant [legacy]: Free/Close also close the channel) does crash: the
   schedule  Receive ; Publish up to its lookup ; Free ; Publish's select (send case)  —
   replayed on the real code by corpus/bcast/d1-*.json on every run. *)
Theorem D1_refuted :
  exists progs cs s, run legacy (init progs) cs = Some s /\ crashed s = true.
Proof.
  exists [[Receive 1%N 1%N]; [Publish 1%N 7%N]; [Free 1%N]], [(0, 0); (1, 0); (2, 0); (1, 1)].
  eexists. split; [vm_compute; reflexivity|reflexivity].
Qed.
Print Assumptions D1_refuted.

(* Non-vacuity: the hypotheses of bc_publish_returns / bc_receive_returns are met by reachable states. *)
Example blocked_publisher_reachable :
  exists s th, reachable fixed [[Receive 1%N 1%N]; [Publish 1%N 7%N]] s /\
               nth_error (thr s) 1 = Some th /\ pc th = PubBlocked 1%N 0 7%N 0.
Proof.
  eexists. eexists. split; [exists [(0, 0); (1, 0); (1, 0)]; vm_compute; reflexivity|].
  split; reflexivity.
Qed.

Example blocked_receiver_reachable :
  exists s th, reachable fixed [[Receive 1%N 1%N; RunRecv 0]] s /\
               nth_error (thr s) 0 = Some th /\ pc th = RecvBlocked 1%N 0 1%N.
Proof.
  eexists. eexists. split; [exists [(0, 0); (0, 0)]; vm_compute; reflexivity|].
  split; reflexivity.
Qed.

Example delivery_reachable :
  exists s, reachable fixed [[Receive 1%N 1%N; RunRecv 0]; [Publish 1%N 7%N]] s /\
            log s = [EvDeliver 0 1%N 1%N 7%N 0; EvPubStart 0 1%N 7%N].
Proof.
  eexists. split; [exists [(0, 0); (0, 0); (1, 0); (1, 0)]; vm_compute; reflexivity|reflexivity].
Qed.
