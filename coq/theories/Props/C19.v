From Verif Require Import Base Bcast.
Theorem placeholder : True. Proof. exact I. Qed.
Print Assumptions placeholder.
