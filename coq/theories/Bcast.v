(* Bcast.v — executable model of utils.Broadcaster (go/pkg/utils/broadcaster.go) used by
   arbitrary client threads.  One step = one yield window (DESIGN.md §2.2, Appendix A):

     Publish   = [lookup under the lock]  ;  label bc.publish.found  ;  [hand-off select]
     Receive   = one critical section
     receive() = [select]                    (blocks when no case is ready)
     Free / Close / Cancel = one critical section followed by the wake-ups it causes

   A goroutine that is already parked inside a select is woken by the first event that makes
   one of its cases ready (it never sees a later close of the channel); a goroutine that
   arrives at a select polls all ready cases and picks one at random ([branch]).  With
   several partners parked on the same channel the model lets the branch pick any of them
   (Go picks the longest-waiting one: the model over-approximates). *)
From Verif Require Import Base.

Definition key := N.
Definition val := N.
Definition cid := N.

Record entry := mkEntry {
  e_key : key;
  e_parent : cid;        (* context of the Receive call that created the entry *)
  e_cancelled : bool;    (* c.cancel() called by Free / Close *)
  e_chclosed : bool      (* legacy only: close(c.channel) *)
}.

Inductive bop :=
| Publish (k : key) (x : val)
| Receive (k : key) (c : cid)
| RunRecv (h : nat)              (* run this thread's h-th receive function *)
| Free (k : key)
| Close
| Cancel (c : cid).

Inductive rres := Got (x : val) | CtxErr | ErrClosed | NoHandle.

(* what the client (and the harness) observes when an operation returns *)
Inductive bres :=
| RPubSent | RPubGaveUp | RPubNone     (* "sent"/"gaveup" are seen through log-only hooks *)
| RReg (ok : bool)
| RRecv (r : rres)
| RUnit.

Inductive bpc :=
| Idle                                                  (* parked at the gate before its next operation *)
| PubFound (k : key) (e : nat) (x : val) (p : nat)      (* parked at bc.publish.found *)
| PubBlocked (k : key) (e : nat) (x : val) (p : nat)    (* inside Publish's select *)
| RecvBlocked (k : key) (e : nat) (c : cid).            (* inside the receive function's select *)

Record thread := mkThread {
  pc : bpc;
  todo : list bop;
  handles : list (key * nat * cid);
  results : list bres        (* newest first *)
}.

(* ghost events: never read by the model *)
Inductive bev :=
| EvPubStart (p : nat) (k : key) (x : val)
| EvPubQuick (k : key) (tbl_closed : bool)               (* Publish returned at its first step *)
| EvDeliver (p : nat) (kpub krecv : key) (x : val) (receiver : nat)
| EvCrash (t : nat).

Record bst := mkBst {
  tbl : list (key * nat);
  closed : bool;
  ents : list entry;
  cancelled : list cid;
  thr : list thread;
  log : list bev;            (* newest first *)
  crashed : bool;
  next_pid : nat
}.

Definition dummy_entry : entry := mkEntry 0%N 0%N true false.
Definition get_entry (s : bst) (e : nat) : entry := nth e (ents s) dummy_entry.

Definition edone (en : list entry) (cn : list cid) (e : nat) : bool :=
  e_cancelled (nth e en dummy_entry) || memN (e_parent (nth e en dummy_entry)) cn.

Definition entry_done (s : bst) (e : nat) : bool := edone (ents s) (cancelled s) e.

Definition init (progs : list (list bop)) : bst :=
  mkBst [] false [] [] (map (fun p => mkThread Idle p [] []) progs) [] false 0.

(* ---- thread helpers ---- *)
Definition ret (th : thread) (r : bres) : thread :=
  mkThread Idle (todo th) (handles th) (r :: results th).
Definition at_pc (th : thread) (p : bpc) : thread :=
  mkThread p (todo th) (handles th) (results th).
Definition pop (th : thread) : thread :=
  mkThread (pc th) (tl (todo th)) (handles th) (results th).
Definition add_handle (th : thread) (h : key * nat * cid) : thread :=
  mkThread (pc th) (todo th) (handles th ++ [h]) (results th).

Definition set_thr (s : bst) (l : list thread) : bst :=
  mkBst (tbl s) (closed s) (ents s) (cancelled s) l (log s) (crashed s) (next_pid s).
Definition add_log (s : bst) (e : bev) : bst :=
  mkBst (tbl s) (closed s) (ents s) (cancelled s) (thr s) (e :: log s) (crashed s) (next_pid s).

(* ---- wake-ups: re-evaluate the non-rendezvous cases of every parked select ---- *)
Definition wake1 (v : variant) (s : bst) (th : thread) : thread :=
  match pc th with
  | PubBlocked k e x p => if entry_done s e then ret th RPubGaveUp else th
  | RecvBlocked k e c =>
      if memN c (cancelled s) then ret th (RRecv CtxErr)
      else if close_chan_on_free v
           then (if e_chclosed (get_entry s e) then ret th (RRecv ErrClosed) else th)
           else (if entry_done s e then ret th (RRecv ErrClosed) else th)
  | _ => th
  end.

Definition wake (v : variant) (s : bst) : bst := set_thr s (map (wake1 v s) (thr s)).

(* ---- table operations ---- *)
Definition cancel_entry (v : variant) (en : entry) : entry :=
  mkEntry (e_key en) (e_parent en) true (close_chan_on_free v || e_chclosed en).

Definition cancel_entries (v : variant) (es : list nat) (l : list entry) : list entry :=
  fold_left (fun l e => match nth_error l e with
                        | Some en => upd l e (cancel_entry v en)
                        | None => l end) es l.

Definition do_free (v : variant) (s : bst) (k : key) : bst :=
  match lookupN k (tbl s) with
  | None => s
  | Some e => mkBst (removeN k (tbl s)) (closed s) (cancel_entries v [e] (ents s)) (cancelled s)
                    (thr s) (log s) (crashed s) (next_pid s)
  end.

Definition do_close (v : variant) (s : bst) : bst :=
  mkBst [] true (cancel_entries v (map snd (tbl s)) (ents s)) (cancelled s)
        (thr s) (log s) (crashed s) (next_pid s).

Definition do_cancel (s : bst) (c : cid) : bst :=
  mkBst (tbl s) (closed s) (ents s) (c :: cancelled s) (thr s) (log s) (crashed s) (next_pid s).

(* ---- select cases ---- *)
Inductive pcase := PHand (t' : nat) | PDone | PCrash.
Inductive rcase := RHand (t' : nat) | RCtx | REnt | RClosed.

Fixpoint receivers_on (e : nat) (l : list thread) (i : nat) : list nat :=
  match l with
  | [] => []
  | th :: rest =>
      match pc th with
      | RecvBlocked _ e' _ => if Nat.eqb e e' then i :: receivers_on e rest (S i) else receivers_on e rest (S i)
      | _ => receivers_on e rest (S i)
      end
  end.

Fixpoint publishers_on (e : nat) (l : list thread) (i : nat) : list nat :=
  match l with
  | [] => []
  | th :: rest =>
      match pc th with
      | PubBlocked _ e' _ _ => if Nat.eqb e e' then i :: publishers_on e rest (S i) else publishers_on e rest (S i)
      | _ => publishers_on e rest (S i)
      end
  end.

Definition pub_cases (s : bst) (e : nat) : list pcase :=
  map PHand (receivers_on e (thr s) 0)
  ++ (if entry_done s e then [PDone] else [])
  ++ (if e_chclosed (get_entry s e) then [PCrash] else []).

Definition recv_cases (v : variant) (s : bst) (e : nat) (c : cid) : list rcase :=
  map RHand (publishers_on e (thr s) 0)
  ++ (if memN c (cancelled s) then [RCtx] else [])
  ++ (if close_chan_on_free v
      then (if e_chclosed (get_entry s e) then [RClosed] else [])
      else (if entry_done s e then [REnt] else [])).

Definition only0 (b : nat) (r : option bst) : option bst :=
  match b with O => r | _ => None end.

(* ---- the step function ---- *)
Definition bstep (v : variant) (s : bst) (t : nat) (b : nat) : option bst :=
  if crashed s then None else
  match nth_error (thr s) t with
  | None => None
  | Some th =>
    match pc th with
    | Idle =>
      match todo th with
      | [] => None
      | op :: _ =>
        let th0 := pop th in
        match op with
        | Publish k x =>
            only0 b
            (if closed s then Some (add_log (set_thr s (upd (thr s) t (ret th0 RPubNone))) (EvPubQuick k true))
             else match lookupN k (tbl s) with
                  | None => Some (add_log (set_thr s (upd (thr s) t (ret th0 RPubNone))) (EvPubQuick k false))
                  | Some e =>
                      Some (mkBst (tbl s) (closed s) (ents s) (cancelled s)
                                  (upd (thr s) t (at_pc th0 (PubFound k e x (next_pid s))))
                                  (EvPubStart (next_pid s) k x :: log s) (crashed s) (S (next_pid s)))
                  end)
        | Receive k c =>
            only0 b
            (if closed s then Some (set_thr s (upd (thr s) t (ret th0 (RReg false))))
             else match lookupN k (tbl s) with
                  | Some e =>
                      Some (set_thr s (upd (thr s) t (ret (add_handle th0 (k, e, c)) (RReg true))))
                  | None =>
                      let e := length (ents s) in
                      Some (mkBst ((k, e) :: tbl s) (closed s)
                                  (ents s ++ [mkEntry k c false false]) (cancelled s)
                                  (upd (thr s) t (ret (add_handle th0 (k, e, c)) (RReg true)))
                                  (log s) (crashed s) (next_pid s))
                  end)
        | RunRecv h =>
            match nth_error (handles th) h with
            | None => only0 b (Some (set_thr s (upd (thr s) t (ret th0 (RRecv NoHandle)))))
            | Some (k, e, c) =>
                match recv_cases v s e c with
                | [] => only0 b (Some (set_thr s (upd (thr s) t (at_pc th0 (RecvBlocked k e c)))))
                | cases =>
                    match nth_error cases b with
                    | None => None
                    | Some (RHand t') =>
                        match nth_error (thr s) t' with
                        | Some th' =>
                            match pc th' with
                            | PubBlocked k' e' x p =>
                                if Nat.eqb e e' then
                                Some (add_log (set_thr s (upd (upd (thr s) t' (ret th' RPubSent)) t
                                                              (ret th0 (RRecv (Got x)))))
                                              (EvDeliver p k' k x t))
                                else None
                            | _ => None
                            end
                        | None => None
                        end
                    | Some RCtx => Some (set_thr s (upd (thr s) t (ret th0 (RRecv CtxErr))))
                    | Some REnt =>
                        Some (set_thr s (upd (thr s) t
                               (ret th0 (RRecv (if memN c (cancelled s) then CtxErr else ErrClosed)))))
                    | Some RClosed => Some (set_thr s (upd (thr s) t (ret th0 (RRecv ErrClosed))))
                    end
                end
            end
        | Free k =>
            only0 b (let s1 := do_free v (set_thr s (upd (thr s) t (ret th0 RUnit))) k in Some (wake v s1))
        | Close =>
            only0 b (let s1 := do_close v (set_thr s (upd (thr s) t (ret th0 RUnit))) in Some (wake v s1))
        | Cancel c =>
            only0 b (let s1 := do_cancel (set_thr s (upd (thr s) t (ret th0 RUnit))) c in Some (wake v s1))
        end
      end
    | PubFound k e x p =>
        match pub_cases s e with
        | [] => only0 b (Some (set_thr s (upd (thr s) t (at_pc th (PubBlocked k e x p)))))
        | cases =>
            match nth_error cases b with
            | None => None
            | Some (PHand t') =>
                match nth_error (thr s) t' with
                | Some th' =>
                    match pc th' with
                    | RecvBlocked k' e' _ =>
                        if Nat.eqb e e' then
                        Some (add_log (set_thr s (upd (upd (thr s) t' (ret th' (RRecv (Got x)))) t
                                                      (ret th RPubSent)))
                                      (EvDeliver p k k' x t'))
                        else None
                    | _ => None
                    end
                | None => None
                end
            | Some PDone => Some (set_thr s (upd (thr s) t (ret th RPubGaveUp)))
            | Some PCrash =>
                Some (mkBst (tbl s) (closed s) (ents s) (cancelled s)
                            (upd (thr s) t (mkThread Idle [] (handles th) (results th)))
                            (EvCrash t :: log s) true (next_pid s))
            end
        end
    | PubBlocked _ _ _ _ => None
    | RecvBlocked _ _ _ => None
    end
  end.

(* ---- runs ---- *)
Fixpoint run (v : variant) (s : bst) (cs : list (nat * nat)) : option bst :=
  match cs with
  | [] => Some s
  | (t, b) :: rest => match bstep v s t b with Some s' => run v s' rest | None => None end
  end.

Definition reachable (v : variant) (progs : list (list bop)) (s : bst) : Prop :=
  exists cs, run v (init progs) cs = Some s.

(* ---- observation (what the harness sees after each choice) ---- *)
Inductive status := SGate (remaining : nat) | SFound | SBlocked.

Definition status_of (th : thread) : status :=
  match pc th with
  | Idle => SGate (length (todo th))
  | PubFound _ _ _ _ => SFound
  | PubBlocked _ _ _ _ => SBlocked
  | RecvBlocked _ _ _ => SBlocked
  end.

Definition observe (s : bst) : bool * list (status * list bres) :=
  (crashed s, map (fun th => (status_of th, rev (results th))) (thr s)).
