(* HubProofs.v — C13 end to end: in the hub (product of two-endpoint systems) every component is a
   reachable state of its own two-endpoint system, a step of one link leaves every other link and
   its peer untouched, and therefore: what a call made through the remote of link k returns as coming
   from the peer is the result of an invocation made by PEER k (for that call's frame, function and
   argument), and every peer invokes only for frames written on ITS OWN link. *)
From Verif Require Import Base Link LinkProofs LinkInv16 LinkInvB LinkInvR LinkInvQ LinkEvents Pair PairProofs Hub.

Section HubProofs.
Variable fns : nat -> nat -> fnkind.
Variables callsAs callsBs : list (list callspec).
Notation hstep := (hstep fns callsAs callsBs).
Notation hrun := (hrun fns callsAs callsBs).

Lemma nth_error_upd_same' {A} (l : list A) k x y : nth_error l k = Some y -> nth_error (upd l k x) k = Some x.
Proof. intros H. apply nth_error_upd_eq. apply nth_error_Some. congruence. Qed.

(* a step of link k changes component k only *)
Lemma hstep_frame hs k a hs' j :
  hstep hs k a = Some hs' -> j <> k -> nth_error hs' j = nth_error hs j.
Proof.
  intros H Hne. unfold hstep, Hub.hstep in H. destruct (nth_error hs k) as [p|]; [|discriminate].
  destruct (pstep _ _ _ p a) as [p'|]; [|discriminate]. inversion H; subst. apply nth_error_upd_neq. auto.
Qed.

(* projection: component k of a hub run is a run of the two-endpoint system of link k *)
Lemma hrun_project sched : forall hs0 hs,
  hrun hs0 sched = Some hs ->
  length hs = length hs0 /\
  forall k p0, nth_error hs0 k = Some p0 ->
    exists l p, prun (fns k) (nth k callsAs []) (nth k callsBs []) p0 l = Some p /\ nth_error hs k = Some p.
Proof.
  induction sched as [|[k a] r IH]; intros hs0 hs H; simpl in H.
  - inversion H; subst. split; auto. intros k p0 Hk. exists [], p0. split; auto.
  - destruct (hstep hs0 k a) as [hs1|] eqn:E; [|discriminate].
    unfold hstep, Hub.hstep in E. destruct (nth_error hs0 k) as [pk|] eqn:Ek; [|discriminate].
    destruct (pstep (fns k) (nth k callsAs []) (nth k callsBs []) pk a) as [pk'|] eqn:Es; [|discriminate]. inversion E; subst hs1.
    destruct (IH _ _ H) as (L & P). split; [rewrite L; apply upd_length|].
    intros j p0 Hj. destruct (Nat.eq_dec j k) as [->|Hne].
    + rewrite Ek in Hj. inversion Hj; subst p0.
      destruct (P k pk') as (l & p & Hr & Hn); [eapply nth_error_upd_same'; eauto|].
      exists (a :: l), p. split; [simpl; rewrite Es; exact Hr|exact Hn].
    + destruct (P j p0) as (l & p & Hr & Hn); [rewrite nth_error_upd_neq; auto|]. exists l, p. auto.
Qed.

Lemma nth_error_repeat' {A} (x : A) n k : k < n -> nth_error (repeat x n) k = Some x.
Proof. revert k. induction n as [|n IH]; intros [|k] H; simpl; try lia; auto. apply IH. lia. Qed.

Lemma hub_component_reachable n hs k p :
  hreachable fns callsAs callsBs n hs -> nth_error hs k = Some p ->
  exists l, prun (fns k) (nth k callsAs []) (nth k callsBs []) pinit l = Some p.
Proof.
  intros (sched & Hr) Hk. destruct (hrun_project _ _ _ Hr) as (L & P).
  assert (Hlt : k < n).
  { assert (k < length hs) by (apply nth_error_Some; congruence). rewrite L in H. unfold hinit in H. rewrite repeat_length in H. exact H. }
  destruct (P k pinit) as (l & p' & Hrun & Hn); [unfold hinit; apply nth_error_repeat'; auto|].
  rewrite Hk in Hn. inversion Hn; subst. exists l. exact Hrun.
Qed.

(* a call made through the remote of link k is answered by peer k, with its own function and argument *)
Lemma hub_call_answered_by_own_peer_lemma n hs k p i v r oe :
  hreachable fns callsAs callsBs n hs -> nth_error hs k = Some p ->
  In (EvReturn i v r) (evs (pa p)) -> genuine r = Some oe ->
  exists m x,
    nth_error (dreq p) m = Some i /\
    In (EvInvoked m (fns k i) (c_arg (nth i (nth k callsAs []) dflt_call))) (evs (pb p)) /\
    handler_result (fns k i) (c_arg (nth i (nth k callsAs []) dflt_call)) = Some (x, oe) /\
    v = (if nres1 (nth k callsAs []) i then zero else x).
Proof.
  intros Hr Hk Hin Hg. destruct (hub_component_reachable _ _ _ _ Hr Hk) as (l & Hl).
  eapply pair_result_is_own_handlers_lemma; eauto.
Qed.

(* every peer invokes only for request frames written on its own link, once per accepted frame *)
Lemma hub_peer_serves_own_link_lemma n hs j p :
  hreachable fns callsAs callsBs n hs -> nth_error hs j = Some p ->
  (forall m f arg, In (EvInvoked m f arg) (evs (pb p)) ->
     exists i, nth_error (dreq p) m = Some i /\ f = fns j i /\ arg = c_arg (nth i (nth j callsAs []) dflt_call) /\
               In (EvReqWritten i arg (c_closure (nth i (nth j callsAs []) dflt_call))) (evs (pa p))) /\
  NoDup (inv_ids (evs (pb p))) /\ NoDup (res_ids (evs (pb p))).
Proof.
  intros Hr Hj. destruct (hub_component_reachable _ _ _ _ Hr Hj) as (l & Hl).
  eapply pair_invocations_are_requested_lemma; eauto.
Qed.

(* no sequence of choices on any link reaches a crash state on any endpoint of the hub *)
Lemma hub_never_crashes_lemma n hs k p :
  hreachable fns callsAs callsBs n hs -> nth_error hs k = Some p ->
  Link.crashed (pa p) = false /\ Link.crashed (pb p) = false.
Proof.
  intros Hr Hk. destruct (hub_component_reachable _ _ _ _ Hr Hk) as (l & Hl).
  destruct (PInv_run _ _ _ _ _ _ _ _ (PInv_init _ _ _) Hl) as (D & Q & HI).
  destruct (pi_ra _ _ _ _ _ _ HI) as (csa & Ha). destruct (pi_rb _ _ _ _ _ _ HI) as (csb & Hb).
  split; eapply lno_crash_lemma; eexists; eauto.
Qed.

End HubProofs.

(* non-vacuity: a hub with two links; link 0 fails (its peer hangs up: the hub's response read fails)
   while a call on link 1 is in flight; the call on link 1 completes with its own peer's result *)
Definition hb_fns (k i : nat) : fnkind := match k with 0 => FEcho | _ => FFail 4%N end.
Definition hb_callsAs : list (list callspec) := [[mkCall 1 2 false 20]; [mkCall 1 2 false 21]].
Definition hb_sched : list (nat * pact) :=
  [(0, PA (Run TSetup) 0); (0, PB (Run TSetup) 0); (1, PA (Run TSetup) 0); (1, PB (Run TSetup) 0);
   (0, PA (Env (EStart 0)) 0); (0, PA (Run (TCall 0)) 0); (0, PA (Run (TWaiter 0)) 0);
   (1, PA (Env (EStart 0)) 0); (1, PA (Run (TCall 0)) 0); (1, PA (Run (TWaiter 0)) 0);
   (1, NReq 0);
   (0, PA (Env (EFailReadRes 9%N)) 0); (0, PA (Run TResLoop) 0);
   (1, PB (Run (TReq 0)) 0); (1, PB (Run (THandler 0)) 0); (1, NRes 0);
   (1, PA (Run (TPub 0)) 0); (1, PA (Run (TPub 0)) 0); (1, PA (Run (TWaiter 0)) 0); (1, PA (Run (TCall 0)) 0);
   (0, PA (Run (TWaiter 0)) 0); (0, PA (Run (TCall 0)) 0)].

Example hub_example :
  exists p0 p1, hrun hb_fns hb_callsAs [] (hinit 2) hb_sched = Some [p0; p1] /\
    fatal (pa p0) = Some (EInj 9%N) /\ In (EvReturn 0 zero (Some EClosed)) (evs (pa p0)) /\
    fatal (pa p1) = None /\ bclosed (pa p1) = false /\ In (EvReturn 0 21%N (Some (EApp 4%N))) (evs (pa p1)).
Proof. eexists. eexists. split; [vm_compute; reflexivity|]. simpl. tauto. Qed.
