(* PairProofs.v — C01 / C02 end to end, for the closed system of two endpoints and a network
   (Pair.v), every schedule of both endpoints, every fault, cancellation, reordering, duplication
   and loss: whatever a call of A returns as coming from the peer is the result of an invocation B
   made of the function that call named, with that call's own argument; B invokes a function only
   for request frames A wrote, at most once per accepted frame.
   The proof composes the per-endpoint invariants (LinkInvR: response routing on the caller side,
   LinkInvQ: one invocation per request on the callee side, LinkEvents: frames carry the call's own
   argument) — no step of Link.v is re-examined here. *)
From Verif Require Import Base Link LinkProofs LinkInv16 LinkInvB LinkInvR LinkInvQ LinkEvents Pair.

Section PairProofs.
Variable fn : nat -> fnkind.
Variables callsA callsB : list callspec.

Notation pstep := (pstep fn callsA callsB).
Notation prun := (prun fn callsA callsB).

Lemma lrun_snoc' v calls cs c b s s1 s2 :
  lrun v calls s cs = Some s1 -> lstep v calls s1 c b = Some s2 -> lrun v calls s (cs ++ [(c, b)]) = Some s2.
Proof. intros H1 H2. rewrite (lrun_app _ _ _ _ _ _ H1). simpl. rewrite H2. reflexivity. Qed.

Lemma req_written_In l i arg : req_written l i = Some arg -> exists cl, In (EvReqWritten i arg cl) l.
Proof.
  induction l as [|e r IH]; simpl; [discriminate|].
  destruct e; try (intros H; destruct (IH H) as (cl & Hc); exists cl; auto; fail).
  destruct (Nat.eqb i i0) eqn:E.
  - intros H. inversion H; subst. apply Nat.eqb_eq in E. subst. exists closure. auto.
  - intros H. destruct (IH H) as (cl & Hc). exists cl. auto.
Qed.

Lemma res_written_In l n v e : res_written l n = Some (v, e) -> In (EvResWritten n v e) l.
Proof.
  induction l as [|x r IH]; simpl; [discriminate|].
  destruct x; try (intros H; right; auto; fail).
  destruct (Nat.eqb n n0) eqn:E.
  - intros H. inversion H; subst. apply Nat.eqb_eq in E. subst. auto.
  - intros H. right. auto.
Qed.

Record PInv (p : pst) (D : list resp) (Q : list reqf) : Prop := mkPInv {
  pi_R : InvR callsA D (pa p);
  pi_Q : InvQ Q (pb p);
  pi_len : length (dreq p) = length Q;
  pi_Qd : forall n i, nth_error (dreq p) n = Some i ->
            exists arg cl, nth_error Q n = Some (fn i, arg) /\ In (EvReqWritten i arg cl) (evs (pa p));
  pi_D : forall id x e, In (id, x, e) D ->
            exists n i, id = N.of_nat i /\ nth_error (dreq p) n = Some i /\ In (EvResWritten n x e) (evs (pb p));
  pi_ra : exists cs, lrun fixed callsA linit cs = Some (pa p);
  pi_rb : exists cs, lrun fixed callsB linit cs = Some (pb p)
}.

Lemma PInv_init : PInv pinit [] [].
Proof.
  constructor; simpl.
  - apply InvR_init.
  - apply InvQ_init.
  - reflexivity.
  - intros n i H. destruct n; discriminate.
  - intros id x e [].
  - exists []. reflexivity.
  - exists []. reflexivity.
Qed.

Lemma D_step_not_res D c : is_res_delivery c = false -> D_step D c = D.
Proof. destruct c as [t|a]; [reflexivity|]. destruct a; simpl; auto; discriminate. Qed.
Lemma Q_step_not_req Q c s s' : is_req_delivery c = false -> Q_step Q c s s' = Q.
Proof. destruct c as [t|a]; [reflexivity|]. destruct a; simpl; auto; discriminate. Qed.

Lemma PInv_step p a p' D Q :
  PInv p D Q -> pstep p a = Some p' -> exists D' Q', PInv p' D' Q'.
Proof.
  intros [hR hQ hl hQd hD (csa & hra) (csb & hrb)] H. destruct a as [c b|c b|i|n]; simpl in H.
  - destruct (is_res_delivery c) eqn:Ec; [discriminate|].
    destruct (lstep fixed callsA (pa p) c b) as [a'|] eqn:Es; [|discriminate]. inversion H; subst p'; clear H.
    exists D, Q. pose proof (grow_step _ _ _ _ _ Es) as Hg.
    constructor; simpl; auto.
    + rewrite <- (D_step_not_res D c Ec). eapply InvR_step; eauto.
    + intros n i Hn. destruct (hQd n i Hn) as (arg & cl & A & B). exists arg, cl. split; auto. eapply grow_In; eauto.
    + exists (csa ++ [(c, b)]). eapply lrun_snoc'; eauto.
    + exists csb. auto.
  - destruct (is_req_delivery c) eqn:Ec; [discriminate|].
    destruct (lstep fixed callsB (pb p) c b) as [b'|] eqn:Es; [|discriminate]. inversion H; subst p'; clear H.
    exists D, Q. pose proof (grow_step _ _ _ _ _ Es) as Hg.
    constructor; simpl; auto.
    + rewrite <- (Q_step_not_req Q c (pb p) b' Ec). eapply InvQ_step; eauto.
    + intros id x e Hin. destruct (hD id x e Hin) as (n & i & A & B & C). exists n, i. split; auto. split; auto. eapply grow_In; eauto.
    + exists csa. auto.
    + exists (csb ++ [(c, b)]). eapply lrun_snoc'; eauto.
  - destruct (req_written (evs (pa p)) i) as [arg|] eqn:Ew; [|discriminate].
    destruct (lstep fixed callsB (pb p) (Env (EDeliverReq (fn i) arg)) 0) as [b'|] eqn:Es; [|discriminate].
    inversion H; subst p'; clear H.
    destruct (req_written_In _ _ _ Ew) as (cl & Hw).
    pose proof (grow_step _ _ _ _ _ Es) as Hg.
    pose proof (InvQ_step _ _ _ _ _ _ hQ Es) as HQ'. simpl Q_step in HQ'.
    exists D. destruct (Nat.eqb (nreq b') (S (nreq (pb p)))) eqn:En.
    + exists (Q ++ [(fn i, arg)]). constructor; simpl; auto.
      * rewrite !app_length. simpl. lia.
      * intros n j Hn. destruct (Nat.lt_ge_cases n (length (dreq p))) as [Hlt|Hge].
        -- rewrite nth_error_app1 in Hn by auto. destruct (hQd n j Hn) as (arg' & cl' & A & B).
           exists arg', cl'. split; auto. rewrite nth_error_app1; [auto|]. rewrite <- hl. auto.
        -- assert (n = length (dreq p)).
           { assert (n < length (dreq p ++ [i])) by (apply nth_error_Some; congruence). rewrite app_length in H. simpl in H. lia. }
           subst n. rewrite nth_error_app2 in Hn by lia. rewrite Nat.sub_diag in Hn. simpl in Hn. inversion Hn; subst j.
           exists arg, cl. split; auto. rewrite hl. rewrite nth_error_app2 by lia. rewrite Nat.sub_diag. reflexivity.
      * intros id x e Hin. destruct (hD id x e Hin) as (n & j & A & B & C). exists n, j. split; auto. split.
        -- rewrite nth_error_app1; auto. apply nth_error_Some. congruence.
        -- eapply grow_In; eauto.
      * exists csa. auto.
      * exists (csb ++ [(Env (EDeliverReq (fn i) arg), 0)]). eapply lrun_snoc'; eauto.
    + exists Q. constructor; simpl; auto.
      * intros id x e Hin. destruct (hD id x e Hin) as (n & j & A & B & C). exists n, j. split; auto. split; auto. eapply grow_In; eauto.
      * exists csa. auto.
      * exists (csb ++ [(Env (EDeliverReq (fn i) arg), 0)]). eapply lrun_snoc'; eauto.
  - destruct (res_written (evs (pb p)) n) as [[v e]|] eqn:Ew; [|discriminate].
    destruct (nth_error (dreq p) n) as [i|] eqn:En; [|discriminate].
    destruct (lstep fixed callsA (pa p) (Env (EDeliverRes (N.of_nat i) v e)) 0) as [a'|] eqn:Es; [|discriminate].
    inversion H; subst p'; clear H.
    pose proof (grow_step _ _ _ _ _ Es) as Hg.
    pose proof (InvR_step _ _ _ _ _ _ hR Es) as HR'. simpl D_step in HR'.
    exists ((N.of_nat i, v, e) :: D), Q. constructor; simpl; auto.
    + intros m j Hm. destruct (hQd m j Hm) as (arg & cl & A & B). exists arg, cl. split; auto. eapply grow_In; eauto.
    + intros id x e' [Heq|Hin].
      * inversion Heq; subst. exists n, i. split; auto. split; auto. apply res_written_In. auto.
      * auto.
    + exists (csa ++ [(Env (EDeliverRes (N.of_nat i) v e), 0)]). eapply lrun_snoc'; eauto.
    + exists csb. auto.
Qed.

Lemma PInv_run l : forall p p' D Q, PInv p D Q -> prun p l = Some p' -> exists D' Q', PInv p' D' Q'.
Proof.
  induction l as [|a r IH]; intros p p' D Q HI H; simpl in H.
  - inversion H; subst. eauto.
  - destruct (pstep p a) as [p1|] eqn:E; [|discriminate].
    destruct (PInv_step _ _ _ _ _ HI E) as (D1 & Q1 & H1). eauto.
Qed.

(* C01/C02 end to end: a result that a call of A returns as coming from the peer is the result of an
   invocation B made of the function this call named, with this call's own argument, for a request
   frame this call wrote *)
Lemma pair_result_is_own_handlers_lemma l p i v r oe :
  prun pinit l = Some p ->
  In (EvReturn i v r) (evs (pa p)) -> genuine r = Some oe ->
  exists n x,
    nth_error (dreq p) n = Some i /\
    In (EvInvoked n (fn i) (c_arg (nth i callsA dflt_call))) (evs (pb p)) /\
    handler_result (fn i) (c_arg (nth i callsA dflt_call)) = Some (x, oe) /\
    v = (if nres1 callsA i then zero else x).
Proof.
  intros Hr Hin Hg. destruct (PInv_run _ _ _ _ _ PInv_init Hr) as (D & Q & [hR hQ hl hQd hD (csa & hra) _]).
  destruct hR as (_ & _ & K3). destruct (K3 _ _ _ _ Hin Hg) as (x & Hx & Hv).
  destruct (hD _ _ _ Hx) as (n & j & Hid & Hn & Hw). apply Nat2N.inj in Hid. subst j.
  destruct (q_res _ _ hQ _ _ _ Hw) as (f & arg & Hi & Hres).
  pose proof (q_inv _ _ hQ _ _ _ Hi) as HQn.
  destruct (hQd _ _ Hn) as (arg' & cl & HQn' & Hrw). rewrite HQn in HQn'. inversion HQn'; subst f arg'.
  destruct (request_carries_own_argument_lemma _ _ _ _ _ _ hra Hrw) as (Ha & _). subst arg.
  exists n, x. auto.
Qed.

(* B invokes an exposed function only for request frames A wrote, with the function and argument of
   the call that wrote the frame, and at most once per accepted frame *)
Lemma pair_invocations_are_requested_lemma l p :
  prun pinit l = Some p ->
  (forall n f arg, In (EvInvoked n f arg) (evs (pb p)) ->
     exists i, nth_error (dreq p) n = Some i /\ f = fn i /\ arg = c_arg (nth i callsA dflt_call) /\
               In (EvReqWritten i arg (c_closure (nth i callsA dflt_call))) (evs (pa p))) /\
  NoDup (inv_ids (evs (pb p))) /\ NoDup (res_ids (evs (pb p))).
Proof.
  intros Hr. destruct (PInv_run _ _ _ _ _ PInv_init Hr) as (D & Q & [hR hQ hl hQd hD (csa & hra) _]).
  split; [|split; [exact (q_nd1 _ _ hQ)|exact (q_nd2 _ _ hQ)]].
  intros n f arg Hi. pose proof (q_inv _ _ hQ _ _ _ Hi) as HQn.
  assert (Hlt : n < length (dreq p)) by (rewrite hl; apply nth_error_Some; congruence).
  destruct (nth_error (dreq p) n) as [i|] eqn:En; [|apply nth_error_None in En; lia].
  destruct (hQd _ _ En) as (arg' & cl & HQn' & Hrw). rewrite HQn in HQn'. inversion HQn'; subst f arg'.
  destruct (request_carries_own_argument_lemma _ _ _ _ _ _ hra Hrw) as (Ha & Hc). subst.
  exists i. auto.
Qed.

End PairProofs.

(* non-vacuity: two calls of A in flight; the network delivers request 1 before request 0 and the
   response to call 0 twice; both calls return their own handler's result *)
Definition px_calls : list callspec := [mkCall 1 2 false 10; mkCall 2 2 false 11].
Definition px_fn (i : nat) : fnkind := match i with 0 => FEcho | _ => FFail 5%N end.
Definition px_sched : list pact :=
  [PA (Run TSetup) 0; PB (Run TSetup) 0;
   PA (Env (EStart 0)) 0; PA (Env (EStart 1)) 0; PA (Run (TCall 0)) 0; PA (Run (TCall 1)) 0;
   PA (Run (TWaiter 0)) 0; PA (Run (TWaiter 1)) 0;
   NReq 1; NReq 0;
   PB (Run (TReq 0)) 0; PB (Run (TReq 1)) 0; PB (Run (THandler 1)) 0; PB (Run (THandler 0)) 0;
   NRes 1; NRes 0; NRes 1;
   PA (Run (TPub 0)) 0; PA (Run (TPub 1)) 0; PA (Run (TPub 2)) 0;
   PA (Run (TPub 0)) 0; PA (Run (TPub 1)) 0;
   PA (Run (TWaiter 0)) 0; PA (Run (TWaiter 1)) 0;
   PA (Run (TCall 0)) 0; PA (Run (TCall 1)) 0].

Example pair_example :
  exists p, prun px_fn px_calls [] (pinit) px_sched = Some p /\
            In (EvReturn 0 10%N None) (evs (pa p)) /\ In (EvReturn 1 11%N (Some (EApp 5%N))) (evs (pa p)) /\
            dreq p = [1; 0].
Proof. eexists. split; [vm_compute; reflexivity|]. simpl. tauto. Qed.
