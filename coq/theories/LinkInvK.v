(* LinkInvK.v — C02 / C01: no lost wake-up.  On a healthy link a call that waits for its response is
   registered in the pending-call table under its own id, on the very entry its waiter is blocked
   on (invariant InvK over all reachable states); hence a response frame carrying that id, once
   delivered, completes the call by the steps of its publisher, its waiter and the caller alone —
   whatever any handler, closure or other call is doing (stalled, blocked, parked anywhere). *)
From Verif Require Import Base Link LinkProofs LinkInv16 LinkInvB.

Definition waits_on (s : lst) (i ent : nat) : Prop :=
  tget (threads s) (TWaiter i) = Some (WStart ent) \/ tget (threads s) (TWaiter i) = Some (WBlocked ent) \/
  tget (threads s) (TCall i) = Some (CRegistered ent).

Definition is_registered (o : option tstate) : bool := match o with Some (CRegistered _) => true | _ => false end.

Record InvK (s : lst) : Prop := mkInvK {
  k_reg : bclosed s = false -> forall i ent, waits_on s i ent -> lookupN (N.of_nat i) (tbl s) = Some ent;
  k_w2c : forall i, tget (threads s) (TWaiter i) <> None ->
            tget (threads s) (TCall i) <> None /\ is_registered (tget (threads s) (TCall i)) = false
}.

Definition cw_name (t : tname) : bool := match t with TCall _ | TWaiter _ => true | _ => false end.

(* same callers / waiters, same table, same closed flag (or closed) *)
Lemma InvK_core s s' :
  (forall t, cw_name t = true -> tget (threads s') t = tget (threads s) t) ->
  (bclosed s' = true \/ (bclosed s' = bclosed s /\ tbl s' = tbl s)) -> InvK s -> InvK s'.
Proof.
  intros A B [h1 h2]. constructor.
  - intros Hb i ent Hw. destruct B as [B|(B1 & B2)]; [congruence|]. rewrite B2. apply h1; [congruence|].
    unfold waits_on in *. rewrite !A in Hw by reflexivity. exact Hw.
  - intros i Hn. rewrite !A in * by reflexivity. auto.
Qed.

Lemma InvK_ext s s' : threads s' = threads s -> bclosed s' = bclosed s -> tbl s' = tbl s -> InvK s -> InvK s'.
Proof. intros A B C H. apply (InvK_core s s'); auto. intros; rewrite A; auto. Qed.

Lemma InvK_closed s s' :
  (forall t, cw_name t = true -> tget (threads s') t = tget (threads s) t) -> bclosed s' = true -> InvK s -> InvK s'.
Proof. intros A B H. apply (InvK_core s s'); auto. Qed.

Lemma InvK_setT_other s t st : cw_name t = false -> InvK s -> InvK (setT s t st).
Proof.
  intros Hc H. apply (InvK_core s (setT s t st)); auto.
  intros t' Ht'. unfold setT; simpl. apply tget_tset_other. intros ->. congruence.
Qed.

(* a caller that exists moves to a state other than CRegistered *)
Lemma InvK_setT_call s i st0 st :
  tget (threads s) (TCall i) = Some st0 -> is_registered (Some st) = false -> InvK s -> InvK (setT s (TCall i) st).
Proof.
  intros H0 Hr [h1 h2]. constructor.
  - intros Hb j ent Hw. apply h1; [exact Hb|]. unfold waits_on, setT in *; simpl in *.
    rewrite tget_tset_other in Hw by discriminate. rewrite tget_tset in Hw.
    destruct Hw as [Hw|[Hw|Hw]]; auto.
    destruct (tname_eqb (TCall j) (TCall i)) eqn:E; [|auto].
    inversion Hw; subst. discriminate.
  - intros j Hn. unfold setT in *; simpl in *. rewrite tget_tset_other in Hn by discriminate. rewrite tget_tset.
    destruct (tname_eqb (TCall j) (TCall i)) eqn:E.
    + split; [discriminate|exact Hr].
    + apply h2; auto.
Qed.

(* a waiter that exists moves to a state that waits on nothing, or stays on its entry *)
Lemma InvK_setT_waiter s i st0 st :
  tget (threads s) (TWaiter i) = Some st0 ->
  (forall ent, st = WStart ent \/ st = WBlocked ent -> st0 = WStart ent \/ st0 = WBlocked ent) ->
  InvK s -> InvK (setT s (TWaiter i) st).
Proof.
  intros H0 Hst [h1 h2]. constructor.
  - intros Hb j ent Hw. apply h1; [exact Hb|]. unfold waits_on, setT in *; simpl in *.
    rewrite (tget_tset_other _ (TWaiter i) (TCall j)) in Hw by discriminate. rewrite !tget_tset in Hw.
    destruct (tname_eqb (TWaiter j) (TWaiter i)) eqn:E; [|exact Hw].
    apply tname_eqb_eq in E. inversion E; subst j.
    destruct Hw as [Hw|[Hw|Hw]]; auto.
    + inversion Hw; subst. destruct (Hst ent (or_introl eq_refl)) as [->| ->]; auto.
    + inversion Hw; subst. destruct (Hst ent (or_intror eq_refl)) as [->| ->]; auto.
  - intros j Hn. unfold setT in *; simpl in *. rewrite tget_tset_other by discriminate.
    rewrite tget_tset in Hn. destruct (tname_eqb (TWaiter j) (TWaiter i)) eqn:E; [|apply h2; auto].
    apply tname_eqb_eq in E. inversion E; subst j. apply h2. congruence.
Qed.

Lemma InvK_wake calls s : InvK s -> InvK (wake calls s).
Proof.
  intros [h1 h2]. constructor.
  - intros Hb i ent Hw. apply h1; [exact Hb|]. unfold waits_on, wake in *; simpl in *.
    rewrite !tget_map_wake_gen in Hw.
    destruct (tget (threads s) (TWaiter i)) as [sw|] eqn:Ew; destruct (tget (threads s) (TCall i)) as [sc|] eqn:Ec; simpl in Hw.
    all: try (destruct Hw as [Hw|[Hw|Hw]]; try discriminate).
    all: try (destruct sw; simpl in Hw; try discriminate;
              try (destruct (memN _ (cancelled s)); [discriminate|]; destruct (le_done _ _ _); [discriminate|]);
              inversion Hw; subst; auto; fail).
    all: try (destruct sc; simpl in Hw; try discriminate;
              try (destruct (memN _ (cancelled s)); discriminate);
              inversion Hw; subst; auto; fail).
  - intros i Hn. unfold wake in *; simpl in *. rewrite !tget_map_wake_gen in *.
    destruct (tget (threads s) (TWaiter i)) as [sw|] eqn:Ew; [|simpl in Hn; congruence].
    destruct (h2 i) as (A & B); [congruence|].
    destruct (tget (threads s) (TCall i)) as [sc|] eqn:Ec; [|congruence]. simpl. split; [discriminate|].
    destruct sc; simpl in *; try reflexivity; try discriminate. destruct (memN 0%N (cancelled s)); reflexivity.
Qed.

Lemma InvK_do_close s : InvK s -> InvK (do_close s).
Proof. intros H. apply (InvK_closed s (do_close s)); auto. Qed.

Lemma InvK_take_fault s k o s1 : take_fault s k = (o, s1) -> InvK s -> InvK s1.
Proof. intros E H. unfold take_fault in E. destruct k as [|[|[|k]]]; inversion E; subst; (eapply InvK_ext; [| | |exact H]; reflexivity). Qed.
Lemma InvK_with_ev s e : InvK s -> InvK (with_ev s e).
Proof. intros H. eapply InvK_ext; [| | |exact H]; reflexivity. Qed.
Lemma InvK_with_flt s f : InvK s -> InvK (with_flt s f).
Proof. intros H. eapply InvK_ext; [| | |exact H]; reflexivity. Qed.
Lemma InvK_with_closures s c : InvK s -> InvK (with_closures s c).
Proof. intros H. eapply InvK_ext; [| | |exact H]; reflexivity. Qed.

(* setErr's first half by any thread: the table is closed from now on *)
Lemma InvK_begin_seterr calls s t e k :
  (cw_name t = false \/ exists i st0, t = TCall i /\ tget (threads s) t = Some st0) -> InvK s -> InvK (begin_seterr calls s t e k).
Proof.
  intros Ht H. unfold begin_seterr. apply InvK_wake.
  destruct Ht as [Hc|(i & st0 & -> & H0)].
  - apply InvK_setT_other; auto. apply InvK_do_close; auto.
  - eapply (InvK_setT_call (do_close s) i st0); auto. apply InvK_do_close; auto.
Qed.

Lemma InvK_caller_panic calls s i e st0 : tget (threads s) (TCall i) = Some st0 -> InvK s -> InvK (caller_panic calls s i e).
Proof. intros H0 H. unfold caller_panic. apply InvK_begin_seterr; [right; exists i, st0; auto|]. apply InvK_with_closures; auto. Qed.

Lemma InvK_caller_return s i v e st0 : tget (threads s) (TCall i) = Some st0 -> InvK s -> InvK (caller_return s i v e).
Proof.
  intros H0 H. unfold caller_return. apply InvK_with_ev. eapply (InvK_setT_call _ i st0); auto. apply InvK_with_closures; auto.
Qed.

Lemma InvK_loop_again calls s t st : cw_name t = false -> InvK s -> InvK (loop_again calls s t st).
Proof.
  intros Hc H. unfold loop_again. destruct (memN 0%N (cancelled s)); [apply InvK_begin_seterr; auto|apply InvK_setT_other; auto].
Qed.

Lemma InvK_loop_done s : InvK s -> InvK (loop_done s).
Proof.
  intros H. unfold loop_done. cbv zeta.
  match goal with |- InvK (if ?c then _ else ?x) =>
    assert (Hx : InvK x) by (eapply InvK_ext; [| | |exact H]; reflexivity); destruct c; auto end.
  match goal with |- InvK (match ?o with _ => _ end) => destruct o as [[]|]; auto end.
  apply InvK_setT_other; auto.
Qed.

Lemma InvK_do_store v s e : InvK s -> InvK (do_store v s e).
Proof.
  intros H. unfold do_store. cbv zeta.
  match goal with |- InvK (match tget (threads ?x) TLink with _ => _ end) =>
    assert (Hx : InvK x) by (eapply InvK_ext; [| | |exact H]; reflexivity);
    destruct (tget (threads x) TLink) as [[]|]; auto end.
  apply InvK_setT_other; auto.
Qed.

Lemma InvK_handler_respond calls s n v e : InvK s -> InvK (handler_respond calls s n v e).
Proof.
  intros H. unfold handler_respond.
  destruct (take_fault s 2) as [[x|] s1] eqn:E1.
  - apply InvK_begin_seterr; [left; reflexivity|]. eapply InvK_take_fault; eauto.
  - assert (H1 : InvK s1) by (eapply InvK_take_fault; eauto).
    destruct (memN 0%N (cancelled s1)); [apply InvK_begin_seterr; [left; reflexivity|auto]|].
    destruct (take_fault s1 1) as [[x|] s2] eqn:E2.
    + apply InvK_begin_seterr; [left; reflexivity|]. eapply InvK_take_fault; eauto.
    + apply InvK_with_ev. apply InvK_setT_other; [reflexivity|]. eapply InvK_take_fault; eauto.
Qed.

(* the waiter of call i frees its entry and finishes *)
Lemma InvK_free_finish s i : tget (threads s) (TWaiter i) <> None -> InvK s -> InvK (setT (do_free s (N.of_nat i)) (TWaiter i) Finished).
Proof.
  intros Hw [h1 h2]. destruct (h2 i Hw) as (C1 & C2).
  assert (Th : threads (do_free s (N.of_nat i)) = threads s) by (unfold do_free; destruct (lookupN _ _); reflexivity).
  assert (Bc : bclosed (do_free s (N.of_nat i)) = bclosed s) by (unfold do_free; destruct (lookupN _ _); reflexivity).
  constructor.
  - intros Hb j ent Hwj. unfold waits_on, setT in *; simpl in *. rewrite Th in *. rewrite Bc in Hb.
    rewrite (tget_tset_other _ (TWaiter i) (TCall j)) in Hwj by discriminate. rewrite !tget_tset in Hwj.
    destruct (tname_eqb (TWaiter j) (TWaiter i)) eqn:E.
    + apply tname_eqb_eq in E. inversion E; subst j. destruct Hwj as [Hx|[Hx|Hx]]; try discriminate.
      rewrite Hx in C2. discriminate.
    + assert (Hne : j <> i) by (intros ->; rewrite tname_eqb_refl in E; discriminate).
      assert (L : lookupN (N.of_nat j) (tbl s) = Some ent) by (apply h1; auto).
      unfold do_free. destruct (lookupN (N.of_nat i) (tbl s)); simpl; [|exact L].
      rewrite lookupN_removeN_other; [exact L|]. intros Hq. apply Nat2N.inj in Hq. congruence.
  - intros j Hn. unfold setT in *; simpl in *. rewrite Th in *. rewrite tget_tset_other by discriminate.
    rewrite tget_tset in Hn. destruct (tname_eqb (TWaiter j) (TWaiter i)) eqn:E; [|apply h2; auto].
    apply tname_eqb_eq in E. inversion E; subst j. auto.
Qed.

(* ---------------------------------------------------------------- the sub-steps *)
Lemma InvK_env calls s a s' : InvK s -> step_env fixed calls s a = Some s' -> InvK s'.
Proof.
  intros HI H. unfold step_env in H. destruct a as [i|id x e| |n|f arg| |n|c|which n].
  - (* EStart *)
    destruct (tget (threads s) (TCall i)) eqn:Ht; [discriminate|].
    destruct (nth_error calls i) as [cs|] eqn:Hn; [|discriminate].
    set (s0 := if c_closure cs then with_closures s (i :: closures s) else s) in *.
    assert (H0 : InvK s0) by (unfold s0; destruct (c_closure cs); [apply InvK_with_closures|]; auto).
    assert (T0 : tget (threads s0) (TCall i) = None) by (unfold s0; destruct (c_closure cs); exact Ht).
    (* the caller's thread is created by this step: a panic path sets it to SetErrMid, the normal path to CRegistered *)
    assert (Panic : forall s1 e, InvK s1 -> tget (threads s1) (TCall i) = None -> InvK (caller_panic calls s1 i e)).
    { intros s1 e [g1 g2] T1. unfold caller_panic, begin_seterr. apply InvK_wake. constructor.
      - simpl. discriminate.
      - intros j Hj. unfold setT in *; simpl in *. rewrite tget_tset_other in Hj by discriminate. rewrite tget_tset.
        destruct (tname_eqb (TCall j) (TCall i)) eqn:E; [split; [discriminate|reflexivity]|apply g2; auto]. }
    destruct (take_fault s0 2) as [[x|] s1] eqn:E1.
    + inversion H; subst. apply Panic; [eapply InvK_take_fault; eauto|].
      unfold take_fault in E1; inversion E1; subst; exact T0.
    + assert (H1 : InvK s1) by (eapply InvK_take_fault; eauto).
      assert (T1 : tget (threads s1) (TCall i) = None) by (unfold take_fault in E1; inversion E1; subst; exact T0).
      destruct (bclosed s1) eqn:Eb; inversion H; subst.
      { (* the link has already ended: the call returns at once *)
        destruct H1 as [g1 g2]. unfold caller_return. constructor.
        - simpl. congruence.
        - intros j Hj. unfold setT in *; simpl in *. rewrite tget_tset_other in Hj by discriminate. rewrite tget_tset.
          destruct (tname_eqb (TCall j) (TCall i)) eqn:E; [split; [discriminate|reflexivity]|apply g2; auto]. }
      destruct H1 as [g1 g2]. constructor.
      * intros _ j ent Hw. unfold waits_on in Hw. simpl in *. rewrite tget_tset_other in Hw by discriminate. rewrite tget_tset in Hw.
        destruct (Nat.eq_dec j i) as [->|Hne].
        -- rewrite N.eqb_refl. rewrite tname_eqb_refl in Hw.
           destruct Hw as [Hw|[Hw|Hw]]; [| |inversion Hw; reflexivity];
             exfalso; destruct (g2 i) as (A & _); congruence.
        -- assert (E : tname_eqb (TCall j) (TCall i) = false) by (simpl; apply Nat.eqb_neq; auto).
           rewrite E in Hw.
           assert (E2 : N.eqb (N.of_nat j) (N.of_nat i) = false) by (apply N.eqb_neq; intros Hq; apply Nat2N.inj in Hq; auto).
           rewrite E2. apply g1; auto.
      * intros j Hj. simpl in *. rewrite tget_tset_other in Hj by discriminate. rewrite tget_tset.
        destruct (tname_eqb (TCall j) (TCall i)) eqn:E; [|apply g2; auto].
        apply tname_eqb_eq in E. inversion E; subst j. exfalso. destruct (g2 i Hj) as (A & _). congruence.
  - destruct (tget (threads s) TResLoop) as [[]|] eqn:Ht; try discriminate.
    destruct (take_fault s 3) as [[y|] s1] eqn:E1; inversion H; subst.
    + apply InvK_begin_seterr; [left; reflexivity|]. eapply InvK_take_fault; eauto.
    + apply InvK_loop_again; [reflexivity|].
      apply (InvK_core s1); [| |eapply InvK_take_fault; eauto]; [|right; split; reflexivity].
      intros t Hc. simpl. apply tget_tset_other. intros <-. discriminate.
  - destruct (tget (threads s) TResLoop) as [[]|] eqn:Ht; try discriminate.
    destruct (take_fault s 3) as [[y|] s1] eqn:E1; inversion H; subst;
      (apply InvK_begin_seterr; [left; reflexivity|]; eapply InvK_take_fault; eauto).
  - destruct (tget (threads s) TResLoop) as [[]|] eqn:Ht; try discriminate. inversion H; subst.
    apply InvK_begin_seterr; [left; reflexivity|auto].
  - destruct (tget (threads s) TReqLoop) as [[]|] eqn:Ht; try discriminate.
    destruct (take_fault s 3) as [[y|] s1] eqn:E1; inversion H; subst.
    + apply InvK_begin_seterr; [left; reflexivity|]. eapply InvK_take_fault; eauto.
    + apply InvK_loop_again; [reflexivity|].
      apply (InvK_core s1); [| |eapply InvK_take_fault; eauto]; [|right; split; reflexivity].
      intros t Hc. simpl. apply tget_tset_other. intros <-. discriminate.
  - destruct (tget (threads s) TReqLoop) as [[]|] eqn:Ht; try discriminate.
    destruct (take_fault s 3) as [[y|] s1] eqn:E1; inversion H; subst;
      (apply InvK_begin_seterr; [left; reflexivity|]; eapply InvK_take_fault; eauto).
  - destruct (tget (threads s) TReqLoop) as [[]|] eqn:Ht; try discriminate. inversion H; subst.
    apply InvK_begin_seterr; [left; reflexivity|auto].
  - destruct (memN c (cancelled s)); [discriminate|]. inversion H; subst.
    apply InvK_wake. eapply InvK_ext; [| | |exact HI]; reflexivity.
  - inversion H; subst. apply InvK_with_flt; auto.
Qed.

Lemma InvK_caller calls s i st s' :
  tget (threads s) (TCall i) = Some st -> InvK s -> step_caller calls s i st = Some s' -> InvK s'.
Proof.
  intros Ht HI H. unfold step_caller in H. destruct st; try discriminate.
  - (* CRegistered: the waiter is started on the caller's entry; the caller leaves CRegistered *)
    set (s0 := setT s (TWaiter i) (WStart ent)) in *.
    assert (T0 : tget (threads s0) (TCall i) = Some (CRegistered ent)) by (unfold s0, setT; simpl; rewrite tget_tset_other by discriminate; exact Ht).
    (* s0 itself violates k_w2c (waiter exists, caller still CRegistered); argue about the results directly *)
    assert (Fin : forall s1 stc, threads s1 = threads s0 -> bclosed s1 = bclosed s -> tbl s1 = tbl s ->
                  is_registered (Some stc) = false -> InvK (setT s1 (TCall i) stc)).
    { intros s1 stc A B C Hr. destruct HI as [h1 h2]. constructor.
      - intros Hb j e Hw. simpl in Hb. rewrite B in Hb. simpl. rewrite C.
        unfold waits_on, setT in Hw; simpl in Hw. rewrite A in Hw. unfold s0, setT in Hw; simpl in Hw.
        rewrite (tget_tset_other _ (TCall i) (TWaiter j)) in Hw by discriminate.
        rewrite (tget_tset _ (TCall i)) in Hw. rewrite (tget_tset _ (TWaiter i) _ (TWaiter j)) in Hw.
        rewrite (tget_tset_other _ (TWaiter i) (TCall j)) in Hw by discriminate.
        destruct (Nat.eq_dec j i) as [->|Hne].
        + rewrite !tname_eqb_refl in Hw. apply h1; auto. right; right.
          destruct Hw as [Hw|[Hw|Hw]]; try discriminate; [inversion Hw; subst; exact Ht|].
          inversion Hw; subst. discriminate.
        + assert (E1 : tname_eqb (TWaiter j) (TWaiter i) = false) by (simpl; apply Nat.eqb_neq; auto).
          assert (E2 : tname_eqb (TCall j) (TCall i) = false) by (simpl; apply Nat.eqb_neq; auto).
          rewrite E1, E2 in Hw. apply h1; auto.
      - intros j Hj. unfold setT in *; simpl in *. rewrite A in *. unfold s0, setT in *; simpl in *.
        rewrite (tget_tset_other _ (TCall i) (TWaiter j)) in Hj by discriminate.
        rewrite (tget_tset _ (TCall i)). rewrite (tget_tset _ (TWaiter i) _ (TWaiter j)) in Hj.
        rewrite (tget_tset_other _ (TWaiter i) (TCall j)) by discriminate.
        destruct (tname_eqb (TCall j) (TCall i)) eqn:E2; [split; [discriminate|exact Hr]|].
        destruct (tname_eqb (TWaiter j) (TWaiter i)) eqn:E1; [|apply h2; auto].
        apply tname_eqb_eq in E1. inversion E1; subst j. rewrite tname_eqb_refl in E2. discriminate. }
    assert (Pan : forall s1 e, threads s1 = threads s0 -> InvK (caller_panic calls s1 i e)).
    { intros s1 e A. unfold caller_panic, begin_seterr. apply InvK_wake. destruct HI as [h1 h2]. constructor.
      - simpl. discriminate.
      - intros j Hj. unfold setT in *; simpl in *. rewrite A in *. unfold s0, setT in *; simpl in *.
        rewrite (tget_tset_other _ (TCall i) (TWaiter j)) in Hj by discriminate.
        rewrite (tget_tset _ (TCall i)). rewrite (tget_tset _ (TWaiter i) _ (TWaiter j)) in Hj.
        rewrite (tget_tset_other _ (TWaiter i) (TCall j)) by discriminate.
        destruct (tname_eqb (TCall j) (TCall i)) eqn:E2; [split; [discriminate|reflexivity]|].
        destruct (tname_eqb (TWaiter j) (TWaiter i)) eqn:E1; [|apply h2; auto].
        apply tname_eqb_eq in E1. inversion E1; subst j. rewrite tname_eqb_refl in E2. discriminate. }
    destruct (memN 0%N (cancelled s0)); [inversion H; subst; apply Pan; reflexivity|].
    destruct (take_fault s0 0) as [[x|] s1] eqn:E1; inversion H; subst.
    + apply Pan. unfold take_fault in E1; inversion E1; subst; reflexivity.
    + apply InvK_with_ev. apply Fin; try reflexivity; unfold take_fault in E1; inversion E1; subst; reflexivity.
  - (* CSelected *)
    destruct o as [[x e|e]|].
    + destruct (Nat.eqb (c_nres (nth i calls dflt_call)) 1); [inversion H; subst; eapply InvK_caller_return; eauto|].
      destruct (take_fault s 3) as [[y|] s1] eqn:E1; inversion H; subst.
      * eapply InvK_caller_panic; [|eapply InvK_take_fault; eauto]. unfold take_fault in E1; inversion E1; subst; exact Ht.
      * eapply InvK_caller_return; [|eapply InvK_take_fault; eauto]. unfold take_fault in E1; inversion E1; subst; exact Ht.
    + inversion H; subst; eapply InvK_caller_return; eauto.
    + inversion H; subst; eapply InvK_caller_panic; eauto.
Qed.

Lemma tget_do_store_any v s e t : t <> TLink -> tget (threads (do_store v s e)) t = tget (threads s) t.
Proof.
  intros Hn. unfold do_store. simpl. destruct (tget (threads s) TLink) as [[]|]; try reflexivity.
  unfold setT; simpl. apply tget_tset_other. congruence.
Qed.

Lemma InvK_seterr s t e k s' :
  tget (threads s) t = Some (SetErrMid e k) -> InvK s -> step_seterr fixed s t e k = Some s' -> InvK s'.
Proof.
  intros Ht HI H. unfold step_seterr in H. destruct (tname_eqb t TLink) eqn:El; [discriminate|].
  assert (Hn : t <> TLink) by (intros ->; simpl in El; discriminate).
  assert (H1 : InvK (do_store fixed s e)) by (apply InvK_do_store; auto).
  assert (T1 : tget (threads (do_store fixed s e)) t = Some (SetErrMid e k)) by (rewrite tget_do_store_any; auto).
  assert (Gen : forall st, is_registered (Some st) = false -> (forall en, st <> WStart en /\ st <> WBlocked en) -> InvK (setT (do_store fixed s e) t st)).
  { intros st Hr Hw. destruct t; try (apply InvK_setT_other; [reflexivity|auto]).
    - eapply InvK_setT_call; eauto.
    - eapply InvK_setT_waiter; eauto. intros en [Hx|Hx]; exfalso; destruct (Hw en); congruence. }
  destruct k as [|e'|].
  - inversion H; subst. apply Gen; [reflexivity|intros; split; discriminate].
  - destruct t; inversion H; subst; try (apply Gen; [reflexivity|intros; split; discriminate]).
    apply InvK_with_ev. apply Gen; [reflexivity|intros; split; discriminate].
  - inversion H; subst. apply InvK_loop_done. apply Gen; [reflexivity|intros; split; discriminate].
Qed.

Lemma InvK_waiter calls s i st b s' :
  tget (threads s) (TWaiter i) = Some st -> InvK s -> step_waiter fixed calls s i st b = Some s' -> InvK s'.
Proof.
  intros Ht HI H. unfold step_waiter in H. destruct st; try discriminate.
  - match type of H with (match ?c with _ => _ end) = _ => destruct c eqn:Ec end.
    + unfold only0 in H. destruct b; inversion H; subst. eapply InvK_setT_waiter; eauto.
      intros en [Hx|Hx]; inversion Hx; subst; auto.
    + match type of H with (match ?c with _ => _ end) = _ => destruct c as [[n| |]|] eqn:En end; try discriminate.
      * destruct (tget (threads s) (TPub n)) as [[]|]; try discriminate.
        match type of H with (if ?c then _ else _) = _ => destruct c end; [|discriminate].
        inversion H; subst.
        eapply (InvK_setT_waiter _ i (WStart ent)); [unfold setT; simpl; rewrite tget_tset_other by discriminate; exact Ht| |apply InvK_setT_other; auto].
        intros en [Hx|Hx]; discriminate.
      * inversion H; subst. eapply InvK_setT_waiter; eauto. intros en [Hx|Hx]; discriminate.
      * inversion H; subst. eapply InvK_setT_waiter; eauto. intros en [Hx|Hx]; discriminate.
  - unfold only0 in H. destruct b; [|discriminate]. simpl in H.
    destruct (tget (threads s) (TCall i)) as [stc|] eqn:Ec.
    + destruct stc; inversion H; subst;
        try (eapply InvK_setT_waiter; eauto; intros en [Hx|Hx]; discriminate).
      eapply (InvK_setT_waiter _ i (WWoke r)); [unfold setT; simpl; rewrite tget_tset_other by discriminate; exact Ht|intros en [Hx|Hx]; discriminate|].
      eapply InvK_setT_call; eauto.
    + inversion H; subst. eapply InvK_setT_waiter; eauto. intros en [Hx|Hx]; discriminate.
  - unfold only0 in H. destruct b; inversion H; subst. apply InvK_wake. apply InvK_free_finish; [congruence|auto].
Qed.

Lemma InvK_pub s n st b s' : InvK s -> step_pub s n st b = Some s' -> InvK s'.
Proof.
  intros HI H. unfold step_pub in H. destruct st; try discriminate.
  - unfold only0 in H. destruct b; [|discriminate].
    destruct (bclosed s); [inversion H; subst; apply InvK_with_ev; apply InvK_setT_other; auto|].
    destruct (lookupN id (tbl s)); inversion H; subst; [apply InvK_setT_other; auto|apply InvK_with_ev; apply InvK_setT_other; auto].
  - match type of H with (match ?c with _ => _ end) = _ => destruct c eqn:Ec end.
    + unfold only0 in H. destruct b; inversion H; subst. apply InvK_setT_other; auto.
    + match type of H with (match ?c with _ => _ end) = _ => destruct c as [[i|]|] eqn:En end; try discriminate.
      * destruct (tget (threads s) (TWaiter i)) as [[]|] eqn:Hw; try discriminate.
        match type of H with (if ?c then _ else _) = _ => destruct c end; [|discriminate].
        inversion H; subst. apply InvK_setT_other; [reflexivity|].
        eapply InvK_setT_waiter; eauto. intros en [Hx|Hx]; discriminate.
      * inversion H; subst. apply InvK_setT_other; auto.
  - unfold only0 in H. destruct b; inversion H; subst. apply InvK_setT_other; auto.
  - unfold only0 in H. destruct b; inversion H; subst. apply InvK_setT_other; auto.
Qed.

Lemma InvK_callee calls s t n st s' : InvK s -> step_callee calls s t n st = Some s' -> InvK s'.
Proof.
  intros HI H. unfold step_callee in H. destruct t; try discriminate; destruct st; try discriminate.
  - destruct f; try (inversion H; subst; apply InvK_begin_seterr; [left; reflexivity|auto]; fail);
      destruct (take_fault s 3) as [[y|] s1] eqn:E1; inversion H; subst;
      try (apply InvK_begin_seterr; [left; reflexivity|]; eapply InvK_take_fault; eauto; fail);
      (apply InvK_setT_other; [reflexivity|]; apply InvK_setT_other; [reflexivity|]; eapply InvK_take_fault; eauto).
  - assert (H1 : forall m, InvK (with_ev s (EvInvoked m f arg))) by (intros m; apply InvK_with_ev; auto).
    destruct f; try (inversion H; subst; apply InvK_begin_seterr; [left; reflexivity|auto]; fail);
      try (inversion H; subst; apply InvK_setT_other; [reflexivity|auto]; fail);
      try (destruct (handler_result _ arg) as [[x e]|]; inversion H; subst; apply InvK_handler_respond; auto).
  - inversion H; subst. apply InvK_handler_respond; auto.
Qed.

Lemma InvK_infra calls s t st s' : InvK s -> step_infra fixed calls s t st = Some s' -> InvK s'.
Proof.
  intros HI H. unfold step_infra in H. destruct t; try discriminate; destruct st; try discriminate.
  - inversion H; subst. apply InvK_begin_seterr; [left; reflexivity|auto].
  - destruct (fatal s); inversion H; subst; (apply InvK_setT_other; [reflexivity|auto]).
  - inversion H; subst. apply InvK_with_ev. apply InvK_setT_other; [reflexivity|auto].
  - inversion H; subst. apply InvK_loop_again; [reflexivity|]. apply InvK_loop_again; [reflexivity|].
    apply InvK_setT_other; [reflexivity|]. eapply InvK_ext; [| | |exact HI]; reflexivity.
  - inversion H; subst. apply (InvK_core s); [|right; split; reflexivity|exact HI].
    intros t Hc. simpl. apply tget_tset_other. intros <-. discriminate.
Qed.

Lemma InvK_init : InvK linit.
Proof.
  constructor.
  - intros _ i ent [H|[H|H]]; discriminate.
  - intros i H. exfalso. apply H. reflexivity.
Qed.

Lemma InvK_step calls s c b s' : InvK s -> lstep fixed calls s c b = Some s' -> InvK s'.
Proof.
  intros HI H. unfold lstep in H. destruct (crashed s); [discriminate|].
  destruct c as [t|a].
  - destruct (tget (threads s) t) as [st|] eqn:Ht; [|discriminate].
    destruct st;
      try (unfold only0 in H; destruct b; [|discriminate]; eapply InvK_seterr; eauto; fail);
      destruct t;
      try (unfold only0 in H; destruct b; [|discriminate]);
      try (eapply InvK_caller; eauto; fail);
      try (eapply InvK_waiter; eauto; fail);
      try (eapply InvK_pub; eauto; fail);
      try (eapply InvK_callee; eauto; fail);
      try (eapply InvK_infra; eauto; fail);
      try discriminate.
  - unfold only0 in H. destruct b; [|discriminate]. eapply InvK_env; eauto.
Qed.

Lemma InvK_run calls cs : forall s0 s, InvK s0 -> lrun fixed calls s0 cs = Some s -> InvK s.
Proof.
  induction cs as [|[c b] r IH]; intros s0 s H0 H; simpl in H.
  - inversion H; subst; auto.
  - destruct (lstep fixed calls s0 c b) eqn:E; [|discriminate]. eapply IH; [|exact H]. eapply InvK_step; eauto.
Qed.

Lemma InvK_reachable calls s : lreachable fixed calls s -> InvK s.
Proof. intros (cs & H). eapply InvK_run; [apply InvK_init|exact H]. Qed.

(* a call that waits for its response on a healthy link is registered under its own id *)
Lemma waiting_call_is_registered_lemma calls s i ent :
  lreachable fixed calls s -> bclosed s = false -> tget (threads s) (TWaiter i) = Some (WBlocked ent) ->
  lookupN (N.of_nat i) (tbl s) = Some ent.
Proof. intros Hr Hb Hw. apply (k_reg _ (InvK_reachable calls s Hr) Hb). right; left; exact Hw. Qed.

(* ---------------------------------------------------------------- a delivered response completes its call *)
Lemma tget_In l t st : tget l t = Some st -> In (t, st) l.
Proof.
  induction l as [|[t' st'] r IH]; simpl; [discriminate|].
  destruct (tname_eqb t t') eqn:E.
  - apply tname_eqb_eq in E; subst. intros H; inversion H; auto.
  - auto.
Qed.

Lemma In_waiters_on l i ent : tget l (TWaiter i) = Some (WBlocked ent) -> In i (waiters_on ent l).
Proof.
  intros H. apply tget_In in H. unfold waiters_on. apply in_flat_map. exists (TWaiter i, WBlocked ent).
  split; auto. rewrite Nat.eqb_refl. simpl; auto.
Qed.

Lemma In_nth_error_app {A} (x : A) l r : In x l -> exists b, nth_error (l ++ r) b = Some x.
Proof.
  intros H. apply In_nth_error in H as (b & Hb). exists b. rewrite nth_error_app1; auto.
  apply nth_error_Some. congruence.
Qed.

(* C02 / C01: on a healthy link, a response frame for a call that waits for it completes that call by
   the steps of the response reader (1), its publisher (2), the call's waiter (1) and the caller
   (at most 2) — no handler, closure, other call or peer has to move *)
Lemma response_completes_call_lemma calls s i ent x e :
  lreachable fixed calls s -> bclosed s = false ->
  tget (threads s) TResLoop = Some RLReading -> memN 0%N (cancelled s) = false -> f_unmarshal (flt s) = None ->
  tget (threads s) (TCall i) = Some CBlocked -> tget (threads s) (TWaiter i) = Some (WBlocked ent) ->
  exists cs s' v er,
    length cs <= 6 /\
    Forall (fun c => fst c = Env (EDeliverRes (N.of_nat i) x e) \/ fst c = Run (TPub (npub s)) \/
                     fst c = Run (TWaiter i) \/ fst c = Run (TCall i)) cs /\
    lrun fixed calls s cs = Some s' /\
    tget (threads s') (TCall i) = Some (CReturned v er) /\
    (er = None -> e = None).
Proof.
  intros Hreach Hb Hr Hc0 Hf Hcall Hw.
  pose proof (lno_crash_lemma _ _ _ Hreach) as Hc.
  pose proof (waiting_call_is_registered_lemma calls s i ent Hreach Hb Hw) as Hl.
  set (n := npub s).
  (* 1: the response reader takes the frame and hands it to a publisher goroutine *)
  set (s1 := setT (mkL (tset (threads s) (TPub n) (PEnter (N.of_nat i) x e)) (tbl s) (bclosed s) (ents s) (cancelled s)
                       (fatal s) (closures s) (remotes s) (loops_done s)
                       (mkFaults (f_wreq (flt s)) (f_wres (flt s)) (f_marshal (flt s)) None)
                       (S n) (nreq s) (evs s) (crashed s)) TResLoop RLReading).
  assert (St1 : lstep fixed calls s (Env (EDeliverRes (N.of_nat i) x e)) 0 = Some s1).
  { unfold lstep. rewrite Hc. simpl. rewrite Hr. unfold take_fault. rewrite Hf. simpl.
    unfold loop_again. simpl. rewrite Hc0. reflexivity. }
  assert (G1 : forall t, t <> TPub n -> t <> TResLoop -> tget (threads s1) t = tget (threads s) t).
  { intros t N1 N2. unfold s1, setT; simpl. rewrite tget_tset_other by congruence. apply tget_tset_other; congruence. }
  assert (P1 : tget (threads s1) (TPub n) = Some (PEnter (N.of_nat i) x e)).
  { unfold s1, setT; simpl. rewrite tget_tset_other by discriminate. apply tget_tset_same. }
  (* 2: the publisher looks the id up *)
  set (s2 := setT s1 (TPub n) (PFound ent x e)).
  assert (St2 : lstep fixed calls s1 (Run (TPub n)) 0 = Some s2).
  { unfold lstep. change (crashed s1) with (crashed s). rewrite Hc, P1. simpl.
    change (bclosed s1) with (bclosed s). rewrite Hb. change (tbl s1) with (tbl s). rewrite Hl. reflexivity. }
  assert (G2 : forall t, t <> TPub n -> t <> TResLoop -> tget (threads s2) t = tget (threads s) t).
  { intros t N1 N2. unfold s2, setT; simpl. rewrite tget_tset_other by congruence. apply G1; auto. }
  assert (P2 : tget (threads s2) (TPub n) = Some (PFound ent x e)) by (unfold s2, setT; simpl; apply tget_tset_same).
  assert (W2 : tget (threads s2) (TWaiter i) = Some (WBlocked ent)) by (rewrite G2 by discriminate; exact Hw).
  (* 3: the publisher's select hands the value to the waiter that is blocked on this entry *)
  destruct (In_nth_error_app (PHand i) (map PHand (waiters_on ent (threads s2)))
              (if le_done (ents s2) (cancelled s2) ent then [PDone] else [])) as (b & Hbn).
  { apply in_map. apply In_waiters_on. exact W2. }
  set (s3 := setT (setT s2 (TWaiter i) (WWoke (WResp x e))) (TPub n) PSent).
  assert (St3 : lstep fixed calls s2 (Run (TPub n)) b = Some s3).
  { unfold lstep. change (crashed s2) with (crashed s). rewrite Hc, P2. cbv beta iota. unfold step_pub. cbv beta iota zeta.
    set (cases := map PHand (waiters_on ent (threads s2)) ++ (if le_done (ents s2) (cancelled s2) ent then [PDone] else [])) in *.
    destruct cases as [|p l] eqn:Ecs; [destruct b; discriminate Hbn|].
    rewrite Hbn. rewrite W2. rewrite Nat.eqb_refl. reflexivity. }
  assert (W3 : tget (threads s3) (TWaiter i) = Some (WWoke (WResp x e))).
  { unfold s3, setT; simpl. rewrite tget_tset_other by discriminate. apply tget_tset_same. }
  assert (C3 : tget (threads s3) (TCall i) = Some CBlocked).
  { unfold s3. rewrite !tget_setT. cbn [tname_eqb]. rewrite G2 by discriminate. exact Hcall. }
  (* 4-6: the waiter deposits, the caller returns *)
  destruct (waiter_woke_then_returns calls s3 i (WResp x e) Hc W3 C3) as (cs & s' & v & er & Hlen & Ho & Hrun & Hret & Hgen & _).
  exists ((Env (EDeliverRes (N.of_nat i) x e), 0) :: (Run (TPub n), 0) :: (Run (TPub n), b) :: cs), s', v, er.
  split; [simpl; lia|]. split.
  - repeat (apply Forall_cons; [simpl; auto|]).
    eapply Forall_impl; [|exact Ho]. intros c [Hx|Hx]; auto.
  - split; [simpl; rewrite St1, St2, St3; exact Hrun|]. split; [exact Hret|].
    intros He. destruct (Hgen He) as (x' & Hx). inversion Hx; auto.
Qed.
