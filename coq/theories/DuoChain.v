(* DuoChain.v — C02, the induction over the depth of alternating call chains, in the closed system with both
   directions networked (Duo.v).

   A chain of depth k is k levels.  Level l has a caller side (A or B, any pattern - alternating chains are
   the case "A, B, A, ..."): a call i of that side that has written its request and waits for the response
   (its waiter goroutine not yet run), the peer having accepted the request as its n-th and its handler n
   being inside application code - where it issued the call of the next level.  Application code is opaque
   in Link.v; what the theorem needs from it is only that a handler resumes once the call it made has
   returned, which is a step the schedule takes.

   Theorem: from EVERY reachable state of the closed system in which both endpoints are up (LinkUp.v) and
   the levels are as described, for EVERY depth, there is a schedule of at most 8 steps per level, made only
   of steps of the chain's own goroutines and deliveries of its own response frames, in which every call of
   the chain returns, innermost first - whatever every other goroutine of either endpoint is doing: the
   premises say nothing about them.

   Ingredients: one level is completed by LinkChain.waiting_caller_completes (progress from wherever the
   waiter finds itself) after PairProgress.resume_handler; the outer levels are carried across the steps of
   the inner ones by the frame theorems of LinkFrame.v, the health of both endpoints by LinkUp.v. *)
From Verif Require Import Base Link LinkProofs LinkInv16 LinkInvB LinkInvR LinkInvQ LinkInvK LinkInvT LinkProgress
  LinkEvents LinkHealthy LinkNames LinkFrame LinkChain LinkUp Pair PairProofs PairProgress Duo DuoProofs.

Section DuoChain.
Variables fnA fnB : nat -> fnkind.
Variables callsA callsB : list callspec.
Notation dstep := (dstep fnA fnB callsA callsB).
Notation drun := (drun fnA fnB callsA callsB).

Lemma drun_app l1 : forall l2 d d1, drun d l1 = Some d1 -> drun d (l1 ++ l2) = drun d1 l2.
Proof.
  induction l1 as [|a r IH]; intros l2 d d1 H; simpl in *.
  - inversion H; subst; reflexivity.
  - destruct (dstep d a); [apply IH; auto|discriminate].
Qed.

Lemma duo_reach l d : drun dinit l = Some d ->
  lreachable fixed callsA (da d) /\ lreachable fixed callsB (db d).
Proof.
  intros H. destruct (drun_viewAB fnA fnB callsA callsB _ _ _ H) as (l' & Hl').
  change (viewAB dinit) with pinit in Hl'.
  destruct (PInv_run fnA callsA callsB _ _ _ _ _ (PInv_init fnA callsA callsB) Hl') as (D & Q & [hR hQ hl hQd hD hra hrb]).
  split; [exact hra|exact hrb].
Qed.

Lemma duo_InvQ l d : drun dinit l = Some d -> (exists Q, InvQ Q (da d)) /\ (exists Q, InvQ Q (db d)).
Proof.
  intros H. split.
  - destruct (drun_viewBA fnA fnB callsA callsB _ _ _ H) as (l' & Hl').
    change (viewBA dinit) with pinit in Hl'.
    destruct (PInv_run fnB callsB callsA _ _ _ _ _ (PInv_init fnB callsB callsA) Hl') as (D & Q & [hR hQ hl hQd hD hra hrb]).
    exists Q. exact hQ.
  - destruct (drun_viewAB fnA fnB callsA callsB _ _ _ H) as (l' & Hl').
    change (viewAB dinit) with pinit in Hl'.
    destruct (PInv_run fnA callsA callsB _ _ _ _ _ (PInv_init fnA callsA callsB) Hl') as (D & Q & [hR hQ hl hQd hD hra hrb]).
    exists Q. exact hQ.
Qed.

(* ---- what an action of the closed system is for one endpoint ---- *)
Definition projA (a : dact) (c : choice) : Prop :=
  match a with
  | DA c' _ => c = c'
  | ResBA _ => exists i v e, c = Env (EDeliverRes i v e)
  | ReqBA j => exists arg, c = Env (EDeliverReq (fnB j) arg)
  | _ => False
  end.
Definition projB (a : dact) (c : choice) : Prop :=
  match a with
  | DB c' _ => c = c'
  | ResAB _ => exists i v e, c = Env (EDeliverRes i v e)
  | ReqAB i => exists arg, c = Env (EDeliverReq (fnA i) arg)
  | _ => False
  end.

Lemma dstep_projA d a d' : dstep d a = Some d' ->
  da d' = da d \/ exists c b, lstep fixed callsA (da d) c b = Some (da d') /\ projA a c.
Proof.
  intros H. destruct a as [c b|c b|i|n|j|m]; simpl in H.
  - destruct (is_delivery c); [discriminate|]. destruct (lstep fixed callsA (da d) c b) as [a'|] eqn:Es; [|discriminate].
    inversion H; subst. right. exists c, b. simpl. auto.
  - destruct (is_delivery c); [discriminate|]. destruct (lstep fixed callsB (db d) c b); [|discriminate].
    inversion H; subst. left; reflexivity.
  - destruct (req_written (evs (da d)) i); [|discriminate].
    destruct (lstep fixed callsB (db d) _ 0); [|discriminate]. inversion H; subst. left; reflexivity.
  - destruct (res_written (evs (db d)) n) as [[v e]|]; [|discriminate]. destruct (nth_error (dAB d) n) as [i|]; [|discriminate].
    destruct (lstep fixed callsA (da d) (Env (EDeliverRes (N.of_nat i) v e)) 0) as [a'|] eqn:Es; [|discriminate].
    inversion H; subst. right. exists (Env (EDeliverRes (N.of_nat i) v e)), 0. simpl. eauto.
  - destruct (req_written (evs (db d)) j) as [arg|]; [|discriminate].
    destruct (lstep fixed callsA (da d) (Env (EDeliverReq (fnB j) arg)) 0) as [a'|] eqn:Es; [|discriminate].
    inversion H; subst. right. exists (Env (EDeliverReq (fnB j) arg)), 0. simpl. eauto.
  - destruct (res_written (evs (da d)) m) as [[v e]|]; [|discriminate]. destruct (nth_error (dBA d) m); [|discriminate].
    destruct (lstep fixed callsB (db d) _ 0); [|discriminate]. inversion H; subst. left; reflexivity.
Qed.

Lemma dstep_projB d a d' : dstep d a = Some d' ->
  db d' = db d \/ exists c b, lstep fixed callsB (db d) c b = Some (db d') /\ projB a c.
Proof.
  intros H. destruct a as [c b|c b|i|n|j|m]; simpl in H.
  - destruct (is_delivery c); [discriminate|]. destruct (lstep fixed callsA (da d) c b); [|discriminate].
    inversion H; subst. left; reflexivity.
  - destruct (is_delivery c); [discriminate|]. destruct (lstep fixed callsB (db d) c b) as [b'|] eqn:Es; [|discriminate].
    inversion H; subst. right. exists c, b. simpl. auto.
  - destruct (req_written (evs (da d)) i) as [arg|]; [|discriminate].
    destruct (lstep fixed callsB (db d) (Env (EDeliverReq (fnA i) arg)) 0) as [b'|] eqn:Es; [|discriminate].
    inversion H; subst. right. exists (Env (EDeliverReq (fnA i) arg)), 0. simpl. eauto.
  - destruct (res_written (evs (db d)) n) as [[v e]|]; [|discriminate]. destruct (nth_error (dAB d) n); [|discriminate].
    destruct (lstep fixed callsA (da d) _ 0); [|discriminate]. inversion H; subst. left; reflexivity.
  - destruct (req_written (evs (db d)) j); [|discriminate].
    destruct (lstep fixed callsA (da d) _ 0); [|discriminate]. inversion H; subst. left; reflexivity.
  - destruct (res_written (evs (da d)) m) as [[v e]|]; [|discriminate]. destruct (nth_error (dBA d) m) as [j|]; [|discriminate].
    destruct (lstep fixed callsB (db d) (Env (EDeliverRes (N.of_nat j) v e)) 0) as [b'|] eqn:Es; [|discriminate].
    inversion H; subst. right. exists (Env (EDeliverRes (N.of_nat j) v e)), 0. simpl. eauto.
Qed.

Lemma drun_projA l : forall d d', drun d l = Some d' ->
  exists cs, lrun fixed callsA (da d) cs = Some (da d') /\ Forall (fun cb => exists a, In a l /\ projA a (fst cb)) cs.
Proof.
  induction l as [|a r IH]; intros d d' H; simpl in H.
  - inversion H; subst. exists []. split; [reflexivity|constructor].
  - destruct (dstep d a) as [d1|] eqn:E; [|discriminate]. destruct (IH _ _ H) as (cs & Hr & Hall).
    assert (Hall' : Forall (fun cb => exists a0, In a0 (a :: r) /\ projA a0 (fst cb)) cs).
    { eapply Forall_impl; [|exact Hall]. intros cb (a0 & Hi & Hp). exists a0. split; [right; exact Hi|exact Hp]. }
    destruct (dstep_projA _ _ _ E) as [Heq|(c & b & Hs & Hp)].
    + exists cs. rewrite <- Heq. split; [exact Hr|exact Hall'].
    + exists ((c, b) :: cs). split; [simpl; rewrite Hs; exact Hr|].
      constructor; [exists a; split; [left; reflexivity|exact Hp]|exact Hall'].
Qed.

Lemma drun_projB l : forall d d', drun d l = Some d' ->
  exists cs, lrun fixed callsB (db d) cs = Some (db d') /\ Forall (fun cb => exists a, In a l /\ projB a (fst cb)) cs.
Proof.
  induction l as [|a r IH]; intros d d' H; simpl in H.
  - inversion H; subst. exists []. split; [reflexivity|constructor].
  - destruct (dstep d a) as [d1|] eqn:E; [|discriminate]. destruct (IH _ _ H) as (cs & Hr & Hall).
    assert (Hall' : Forall (fun cb => exists a0, In a0 (a :: r) /\ projB a0 (fst cb)) cs).
    { eapply Forall_impl; [|exact Hall]. intros cb (a0 & Hi & Hp). exists a0. split; [right; exact Hi|exact Hp]. }
    destruct (dstep_projB _ _ _ E) as [Heq|(c & b & Hs & Hp)].
    + exists cs. rewrite <- Heq. split; [exact Hr|exact Hall'].
    + exists ((c, b) :: cs). split; [simpl; rewrite Hs; exact Hr|].
      constructor; [exists a; split; [left; reflexivity|exact Hp]|exact Hall'].
Qed.

(* ---- sides ---- *)
Definition ep (sd : bool) (d : dst) : lst := if sd then da d else db d.
Definition callsOf (sd : bool) : list callspec := if sd then callsA else callsB.
Definition proj (sd : bool) (a : dact) (c : choice) : Prop := if sd then projA a c else projB a c.
Definition dq (dir : bool) (d : dst) : list nat := if dir then dAB d else dBA d.
Definition act (sd : bool) (c : choice) (b : nat) : dact := if sd then DA c b else DB c b.
Definition resAct (dir : bool) (n : nat) : dact := if dir then ResBA n else ResAB n.

Lemma drun_proj sd l d d' : drun d l = Some d' ->
  exists cs, lrun fixed (callsOf sd) (ep sd d) cs = Some (ep sd d') /\ Forall (fun cb => exists a, In a l /\ proj sd a (fst cb)) cs.
Proof. destruct sd; [apply drun_projA|apply drun_projB]. Qed.

Lemma ep_reach l d sd : drun dinit l = Some d -> lreachable fixed (callsOf sd) (ep sd d).
Proof. intros H. destruct (duo_reach _ _ H). destruct sd; assumption. Qed.

Lemma ep_InvQ l d sd : drun dinit l = Some d -> exists Q, InvQ Q (ep sd d).
Proof. intros H. destruct (duo_InvQ _ _ H). destruct sd; assumption. Qed.

(* ---- frames over runs of the closed system ---- *)
Lemma frame_KeepC sd l d d' i ent :
  KeepC i ent (ep sd d) -> drun d l = Some d' ->
  Forall (fun a => forall c, proj sd a c -> c <> Run (TWaiter i) /\ c <> Env (ECancel 0%N)) l ->
  KeepC i ent (ep sd d').
Proof.
  intros HK Hr Hall. destruct (drun_proj sd _ _ _ Hr) as (cs & Hl & Hcs).
  eapply waiting_caller_undisturbed_lemma; [exact HK| |exact Hl].
  eapply Forall_impl; [|exact Hcs]. intros cb (a & Hin & Hp). rewrite Forall_forall in Hall.
  destruct (Hall a Hin _ Hp) as (N1 & N2). split; assumption.
Qed.

Lemma frame_KeepH sd l0 l d d' n arg :
  drun dinit l0 = Some d -> KeepH n arg (ep sd d) -> n < nreq (ep sd d) -> drun d l = Some d' ->
  Forall (fun a => forall c, proj sd a c -> c <> Run (THandler n)) l ->
  KeepH n arg (ep sd d') /\ n < nreq (ep sd d').
Proof.
  intros H0 HK Hn Hr Hall. destruct (drun_proj sd _ _ _ Hr) as (cs & Hl & Hcs).
  destruct (ep_InvQ _ _ sd H0) as (Q & HQ).
  eapply gated_handler_undisturbed_lemma; [exact HQ|exact HK|exact Hn| |exact Hl].
  eapply Forall_impl; [|exact Hcs]. intros cb (a & Hin & Hp). rewrite Forall_forall in Hall. exact (Hall a Hin _ Hp).
Qed.

Lemma frame_Up sd l d d' :
  Up (ep sd d) -> drun d l = Some d' -> Forall (fun a => forall c, proj sd a c -> benign c = true) l -> Up (ep sd d').
Proof.
  intros HU Hr Hall. destruct (drun_proj sd _ _ _ Hr) as (cs & Hl & Hcs).
  eapply Up_run; [exact HU| |exact Hl].
  eapply Forall_impl; [|exact Hcs]. intros cb (a & Hin & Hp). rewrite Forall_forall in Hall. exact (Hall a Hin _ Hp).
Qed.


(* ---- levels ---- *)
Record level := mkLv { lv_dir : bool; lv_i : nat; lv_ent : nat; lv_n : nat; lv_arg : N }.

Definition LevelOk (d : dst) (lv : level) : Prop :=
  KeepC (lv_i lv) (lv_ent lv) (ep (lv_dir lv) d) /\ nth_error (dq (lv_dir lv) d) (lv_n lv) = Some (lv_i lv) /\
  KeepH (lv_n lv) (lv_arg lv) (ep (negb (lv_dir lv)) d) /\ lv_n lv < nreq (ep (negb (lv_dir lv)) d).

(* the chain's own actions for one level: its handler resumes, its response frame travels, and the publisher,
   waiter and caller goroutines of the call run *)
Definition lact (d0 : dst) (lv : level) (a : dact) : Prop :=
  a = act (negb (lv_dir lv)) (Run (THandler (lv_n lv))) 0 \/ a = resAct (lv_dir lv) (lv_n lv) \/
  (exists b, a = act (lv_dir lv) (Run (TPub (npub (ep (lv_dir lv) d0)))) b) \/
  (exists b, a = act (lv_dir lv) (Run (TWaiter (lv_i lv))) b) \/ (exists b, a = act (lv_dir lv) (Run (TCall (lv_i lv))) b).

Definition liftD (n : nat) (c : choice * nat) : dact :=
  if is_res_delivery (fst c) then ResBA n else DA (fst c) (snd c).

Lemma lift_run_A n i x e b qab qba : forall cs a a',
  res_written (evs b) n = Some (x, e) -> nth_error qab n = Some i ->
  Forall (fun c => fst c = Env (EDeliverRes (N.of_nat i) x e) \/ is_delivery (fst c) = false) cs ->
  lrun fixed callsA a cs = Some a' ->
  drun (mkD a b qab qba) (map (liftD n) cs) = Some (mkD a' b qab qba).
Proof.
  induction cs as [|[c bnd] r IH]; intros a a' Hw Hn Hall Hr; simpl in *.
  - inversion Hr; subst. reflexivity.
  - inversion Hall as [|? ? Hc Hrest]; subst. destruct (lstep fixed callsA a c bnd) as [a1|] eqn:Es; [|discriminate].
    unfold liftD at 1. simpl fst; simpl snd. destruct Hc as [Hc|Hc]; simpl in Hc.
    + subst c. simpl is_res_delivery. cbn iota. simpl. rewrite Hw, Hn.
      assert (bnd = 0). { unfold lstep in Es. destruct (crashed a); [discriminate|]. unfold only0 in Es. destruct bnd; [reflexivity|discriminate]. }
      subst bnd. rewrite Es. apply IH; auto.
    + destruct (not_delivery _ Hc) as (E1 & E2). rewrite E1. simpl. rewrite Hc. rewrite Es. apply IH; auto.
Qed.

Lemma no_faults_callee s : flt s = no_faults -> no_callee_faults s /\ f_unmarshal (flt s) = None.
Proof. intros H. unfold no_callee_faults. rewrite H. simpl. auto. Qed.

(* one level, caller side A *)
Lemma unwind_AB l0 d i ent n arg :
  drun dinit l0 = Some d -> Up (da d) -> Up (db d) ->
  KeepC i ent (da d) -> nth_error (dAB d) n = Some i -> KeepH n arg (db d) ->
  exists l d' v er,
    length l <= 8 /\ Forall (lact d (mkLv true i ent n arg)) l /\ drun d l = Some d' /\
    tget (threads (da d')) (TCall i) = Some (CReturned v er).
Proof.
  intros H0 HUa HUb (Hcall & Hwt & _) Hn (Hh & _).
  destruct (duo_reach _ _ H0) as (HrA & HrB).
  pose proof (lno_crash_lemma _ _ _ HrB) as HcB.
  destruct (Up_facts _ HUa) as (Hba & Hca & Hfa & Hrla & _).
  destruct (Up_facts _ HUb) as (_ & Hcb & Hfb & _ & _).
  destruct (no_faults_callee _ Hfa) as (_ & Hfua). destruct (no_faults_callee _ Hfb) as (Hncf & _).
  destruct (resume_handler callsB (db d) n arg HcB Hh Hcb Hncf) as (b2 & St & E2).
  assert (Hw2 : res_written (evs b2) n = Some (arg, None)) by (rewrite E2; simpl; rewrite Nat.eqb_refl; reflexivity).
  destruct (waiting_caller_completes_lemma callsA (da d) i ent arg None HrA Hba Hrla Hca Hfua Hcall Hwt)
    as (cs & a' & v & er & Hlen & Hown & Hrun & Hret).
  exists (DB (Run (THandler n)) 0 :: map (liftD n) cs), (mkD a' b2 (dAB d) (dBA d)), v, er.
  split; [simpl; rewrite map_length; lia|]. split.
  - constructor; [left; reflexivity|].
    apply Forall_forall. intros a Ha. apply in_map_iff in Ha as ([c bnd] & <- & Hin).
    rewrite Forall_forall in Hown. specialize (Hown _ Hin). unfold completes_own in Hown. simpl in Hown.
    unfold liftD, lact; simpl.
    destruct Hown as [ -> | [ -> | [ -> | -> ] ] ]; simpl; eauto 10.
  - split; [|exact Hret].
    destruct d as [a b qab qba]; simpl in *. rewrite St.
    apply (lift_run_A n i arg None b2 qab qba cs a a' Hw2 Hn); auto.
    apply Forall_forall. intros c Hin. rewrite Forall_forall in Hown. specialize (Hown _ Hin).
    destruct Hown as [H|[H|[H|H]]]; [left; exact H|right; rewrite H; reflexivity..].
Qed.

End DuoChain.

(* ---- the other direction, by symmetry of the closed system ---- *)
Definition dswap (d : dst) : dst := mkD (db d) (da d) (dBA d) (dAB d).
Definition aswap (a : dact) : dact :=
  match a with
  | DA c b => DB c b | DB c b => DA c b
  | ReqAB i => ReqBA i | ResBA n => ResAB n | ReqBA j => ReqAB j | ResAB m => ResBA m
  end.

Lemma dswap_invol d : dswap (dswap d) = d.
Proof. destruct d; reflexivity. Qed.
Lemma aswap_invol a : aswap (aswap a) = a.
Proof. destruct a; reflexivity. Qed.
Lemma map_aswap_invol l : map aswap (map aswap l) = l.
Proof. rewrite map_map. rewrite (map_ext _ (fun x => x)); [apply map_id|apply aswap_invol]. Qed.

Lemma dstep_swap fnA fnB cA cB d a d' :
  dstep fnA fnB cA cB d a = Some d' -> dstep fnB fnA cB cA (dswap d) (aswap a) = Some (dswap d').
Proof.
  intros H. destruct a as [c b|c b|i|n|j|m]; simpl in *.
  - destruct (is_delivery c); [discriminate|]. destruct (lstep fixed cA (da d) c b); [|discriminate]. inversion H; subst. reflexivity.
  - destruct (is_delivery c); [discriminate|]. destruct (lstep fixed cB (db d) c b); [|discriminate]. inversion H; subst. reflexivity.
  - destruct (req_written (evs (da d)) i); [|discriminate].
    destruct (lstep fixed cB (db d) _ 0); [|discriminate]. inversion H; subst. reflexivity.
  - destruct (res_written (evs (db d)) n) as [[v e]|]; [|discriminate]. destruct (nth_error (dAB d) n); [|discriminate].
    destruct (lstep fixed cA (da d) _ 0); [|discriminate]. inversion H; subst. reflexivity.
  - destruct (req_written (evs (db d)) j); [|discriminate].
    destruct (lstep fixed cA (da d) _ 0); [|discriminate]. inversion H; subst. reflexivity.
  - destruct (res_written (evs (da d)) m) as [[v e]|]; [|discriminate]. destruct (nth_error (dBA d) m); [|discriminate].
    destruct (lstep fixed cB (db d) _ 0); [|discriminate]. inversion H; subst. reflexivity.
Qed.

Lemma drun_swap fnA fnB cA cB l : forall d d',
  drun fnA fnB cA cB d l = Some d' -> drun fnB fnA cB cA (dswap d) (map aswap l) = Some (dswap d').
Proof.
  induction l as [|a r IH]; intros d d' H; simpl in *.
  - inversion H; subst. reflexivity.
  - destruct (dstep fnA fnB cA cB d a) as [d1|] eqn:E; [|discriminate].
    rewrite (dstep_swap _ _ _ _ _ _ _ E). apply IH. exact H.
Qed.

Lemma lact_swap d i ent n arg a :
  lact (dswap d) (mkLv true i ent n arg) a -> lact d (mkLv false i ent n arg) (aswap a).
Proof.
  unfold lact; simpl. intros [H|[H|[(b & H)|[(b & H)|(b & H)]]]]; subst a; simpl; eauto 10.
Qed.

Lemma unwind_BA fnA fnB cA cB l0 d i ent n arg :
  drun fnA fnB cA cB dinit l0 = Some d -> Up (da d) -> Up (db d) ->
  KeepC i ent (db d) -> nth_error (dBA d) n = Some i -> KeepH n arg (da d) ->
  exists l d' v er,
    length l <= 8 /\ Forall (lact d (mkLv false i ent n arg)) l /\ drun fnA fnB cA cB d l = Some d' /\
    tget (threads (db d')) (TCall i) = Some (CReturned v er).
Proof.
  intros H0 HUa HUb HK Hn HH.
  pose proof (drun_swap _ _ _ _ _ _ _ H0) as H0'. change (dswap dinit) with dinit in H0'.
  destruct (unwind_AB fnB fnA cB cA (map aswap l0) (dswap d) i ent n arg H0' HUb HUa HK Hn HH)
    as (l' & ds' & v & er & Hlen & Hall & Hrun & Hret).
  exists (map aswap l'), (dswap ds'), v, er.
  split; [rewrite map_length; exact Hlen|]. split.
  - apply Forall_forall. intros a Ha. apply in_map_iff in Ha as (a' & <- & Hin).
    rewrite Forall_forall in Hall. apply lact_swap. apply Hall. exact Hin.
  - split; [|exact Hret].
    pose proof (drun_swap _ _ _ _ _ _ _ Hrun) as Hr. rewrite dswap_invol in Hr. exact Hr.
Qed.

Section Chain.
Variables fnA fnB : nat -> fnkind.
Variables callsA callsB : list callspec.
Notation drun := (drun fnA fnB callsA callsB).
Notation proj := (proj fnA fnB).

Lemma unwind_level l0 d lv :
  drun dinit l0 = Some d -> Up (da d) -> Up (db d) -> LevelOk d lv ->
  exists l d' v er,
    length l <= 8 /\ Forall (lact d lv) l /\ drun d l = Some d' /\
    tget (threads (ep (lv_dir lv) d')) (TCall (lv_i lv)) = Some (CReturned v er).
Proof.
  intros H0 HUa HUb (HK & Hn & HH & _). destruct lv as [[|] i ent n arg]; simpl in *.
  - apply (unwind_AB fnA fnB callsA callsB l0 d i ent n arg); assumption.
  - apply (unwind_BA fnA fnB callsA callsB l0 d i ent n arg); assumption.
Qed.

(* two levels are different calls and different handlers *)
Definition distinct (lv lv' : level) : Prop :=
  (lv_dir lv = lv_dir lv' -> lv_i lv <> lv_i lv') /\ (lv_dir lv = lv_dir lv' -> lv_n lv <> lv_n lv').

Lemma lact_benign d lv a sd c : lact d lv a -> proj sd a c -> benign c = true.
Proof.
  unfold lact. destruct lv as [dir i ent n arg]; simpl.
  intros [H|[H|[(b & H)|[(b & H)|(b & H)]]]] Hp; subst a; destruct dir, sd; simpl in Hp;
    try contradiction; try (subst c; reflexivity);
    try (destruct Hp as (x & v & e & ->); reflexivity).
Qed.

Lemma lact_spares_caller d lv lv' a c :
  distinct lv lv' -> lact d lv a -> proj (lv_dir lv') a c -> c <> Run (TWaiter (lv_i lv')) /\ c <> Env (ECancel 0%N).
Proof.
  unfold lact, distinct. destruct lv as [dir i ent n arg], lv' as [dir' i' ent' n' arg']; simpl.
  intros (D1 & D2) [H|[H|[(b & H)|[(b & H)|(b & H)]]]] Hp; subst a; destruct dir, dir'; simpl in Hp;
    try contradiction; try (subst c; split; [try discriminate|discriminate]);
    try (destruct Hp as (x & v & e & ->); split; discriminate);
    try (intros Hq; inversion Hq; subst; exact (D1 eq_refl eq_refl)).
Qed.

Lemma lact_spares_handler d lv lv' a c :
  distinct lv lv' -> lact d lv a -> proj (negb (lv_dir lv')) a c -> c <> Run (THandler (lv_n lv')).
Proof.
  unfold lact, distinct. destruct lv as [dir i ent n arg], lv' as [dir' i' ent' n' arg']; simpl.
  intros (D1 & D2) [H|[H|[(b & H)|[(b & H)|(b & H)]]]] Hp; subst a; destruct dir, dir'; simpl in Hp;
    try contradiction; try (subst c; try discriminate);
    try (destruct Hp as (x & v & e & ->); discriminate);
    try (intros Hq; inversion Hq; subst; exact (D2 eq_refl eq_refl)).
Qed.

Definition no_req (a : dact) : Prop := match a with ReqAB _ | ReqBA _ => False | _ => True end.
Lemma lact_no_req d lv a : lact d lv a -> no_req a.
Proof.
  unfold lact. destruct lv as [[|] i ent n arg]; simpl;
    intros [H|[H|[(b & H)|[(b & H)|(b & H)]]]]; subst a; exact I.
Qed.

Lemma dq_kept l : forall d d', drun d l = Some d' -> Forall no_req l -> dAB d' = dAB d /\ dBA d' = dBA d.
Proof.
  induction l as [|a r IH]; intros d d' H Hall; simpl in H.
  - inversion H; subst; auto.
  - inversion Hall as [|? ? Ha Hr]; subst.
    destruct (dstep fnA fnB callsA callsB d a) as [d1|] eqn:E; [|discriminate].
    destruct (IH _ _ H Hr) as (E1 & E2). rewrite E1, E2.
    destruct a as [c b|c b|i|n|j|m]; simpl in E; try contradiction.
    + destruct (is_delivery c); [discriminate|]. destruct (lstep fixed callsA (da d) c b); [|discriminate]. inversion E; subst; auto.
    + destruct (is_delivery c); [discriminate|]. destruct (lstep fixed callsB (db d) c b); [|discriminate]. inversion E; subst; auto.
    + destruct (res_written (evs (db d)) n) as [[v e]|]; [|discriminate]. destruct (nth_error (dAB d) n); [|discriminate].
      destruct (lstep fixed callsA (da d) _ 0); [|discriminate]. inversion E; subst; auto.
    + destruct (res_written (evs (da d)) m) as [[v e]|]; [|discriminate]. destruct (nth_error (dBA d) m); [|discriminate].
      destruct (lstep fixed callsB (db d) _ 0); [|discriminate]. inversion E; subst; auto.
Qed.

(* the steps of one level leave every other level as it is *)
Lemma level_kept l0 d lv lv' l d' :
  drun dinit l0 = Some d -> distinct lv lv' -> Forall (lact d lv) l -> drun d l = Some d' ->
  LevelOk d lv' -> LevelOk d' lv'.
Proof.
  intros H0 Hd Hall Hr (HK & Hn & HH & Hlt).
  assert (Hnr : Forall no_req l) by (eapply Forall_impl; [|exact Hall]; intros a; apply lact_no_req).
  destruct (dq_kept _ _ _ Hr Hnr) as (E1 & E2).
  split; [|split].
  - eapply (frame_KeepC fnA fnB callsA callsB); [exact HK|exact Hr|].
    eapply Forall_impl; [|exact Hall]. intros a Ha c Hp. eapply lact_spares_caller; eauto.
  - unfold dq in *. destruct (lv_dir lv'); [rewrite E1|rewrite E2]; exact Hn.
  - eapply (frame_KeepH fnA fnB callsA callsB); [exact H0|exact HH|exact Hlt|exact Hr|].
    eapply Forall_impl; [|exact Hall]. intros a Ha c Hp. eapply lact_spares_handler; eauto.
Qed.

Lemma up_kept d lv l d' sd :
  Forall (lact d lv) l -> drun d l = Some d' -> Up (ep sd d) -> Up (ep sd d').
Proof.
  intros Hall Hr HU. eapply (frame_Up fnA fnB callsA callsB); [exact HU|exact Hr|].
  eapply Forall_impl; [|exact Hall]. intros a Ha c Hp. eapply lact_benign; eauto.
Qed.

(* every call of the chain returns, innermost first, each within its own segment of at most 8 steps made
   only of that level's own actions *)
Inductive completes : dst -> list level -> list dact -> dst -> Prop :=
| C_nil d : completes d [] [] d
| C_cons d lv rest l d1 l' d2 v er :
    Forall (lact d lv) l -> length l <= 8 -> drun d l = Some d1 ->
    tget (threads (ep (lv_dir lv) d1)) (TCall (lv_i lv)) = Some (CReturned v er) ->
    completes d1 rest l' d2 -> completes d (lv :: rest) (l ++ l') d2.

Lemma chain_completes_lemma levels : forall l0 d,
  drun dinit l0 = Some d -> Up (da d) -> Up (db d) ->
  Forall (LevelOk d) levels -> ForallOrdPairs distinct levels ->
  exists l d', completes d levels l d' /\ length l <= 8 * length levels /\ drun d l = Some d' /\
               Up (da d') /\ Up (db d').
Proof.
  induction levels as [|lv rest IH]; intros l0 d H0 HUa HUb Hok Hdis.
  - exists [], d. split; [constructor|]. simpl. auto.
  - inversion Hok as [|? ? Hlv Hrest]; subst. inversion Hdis as [|? ? Hd1 Hd2]; subst.
    destruct (unwind_level l0 d lv H0 HUa HUb Hlv) as (l1 & d1 & v & er & Hlen & Hall & Hr & Hret).
    assert (H01 : drun dinit (l0 ++ l1) = Some d1) by (rewrite (drun_app fnA fnB callsA callsB _ _ _ _ H0); exact Hr).
    assert (HUa1 : Up (da d1)) by (apply (up_kept d lv l1 d1 true Hall Hr HUa)).
    assert (HUb1 : Up (db d1)) by (apply (up_kept d lv l1 d1 false Hall Hr HUb)).
    assert (Hok1 : Forall (LevelOk d1) rest).
    { apply Forall_forall. intros lv' Hin.
      eapply level_kept; [exact H0|exact (proj1 (Forall_forall _ _) Hd1 lv' Hin)|exact Hall|exact Hr|exact (proj1 (Forall_forall _ _) Hrest lv' Hin)]. }
    destruct (IH (l0 ++ l1) d1 H01 HUa1 HUb1 Hok1 Hd2) as (l2 & d2 & Hc & Hl2 & Hr2 & HUa2 & HUb2).
    exists (l1 ++ l2), d2. split; [econstructor; eauto|].
    split; [rewrite app_length; simpl; lia|].
    split; [rewrite (drun_app fnA fnB callsA callsB _ _ _ _ Hr); exact Hr2|auto].
Qed.

End Chain.

(* ---- non-vacuity: a reachable state of the closed system with an alternating chain of depth 3
   (A calls B, whose handler calls A, whose handler calls B), none of the three waiter goroutines having run
   yet, every handler inside application code ---- *)
Definition ch_callsA : list callspec := [mkCall 1 2 false 30; mkCall 2 2 false 31].
Definition ch_callsB : list callspec := [mkCall 1 2 false 40].
Definition ch_fn (i : nat) : fnkind := FGated.
Definition ch_setup : list dact := [DA (Run TSetup) 0; DB (Run TSetup) 0].
Definition ch_build : list dact :=
  [DA (Env (EStart 0)) 0; DA (Run (TCall 0)) 0;
   ReqAB 0; DB (Run (TReq 0)) 0; DB (Run (THandler 0)) 0;          (* B's handler for A's call 0 is inside application code *)
   DB (Env (EStart 0)) 0; DB (Run (TCall 0)) 0;                    (* ... from where it calls A *)
   ReqBA 0; DA (Run (TReq 0)) 0; DA (Run (THandler 0)) 0;          (* A's handler for that call is inside application code *)
   DA (Env (EStart 1)) 0; DA (Run (TCall 1)) 0;                    (* ... from where it calls B again *)
   ReqAB 1; DB (Run (TReq 1)) 0; DB (Run (THandler 1)) 0].
Definition ch_levels : list level :=
  [mkLv true 1 1 1 31%N; mkLv false 0 0 0 40%N; mkLv true 0 0 0 30%N].     (* innermost first *)

Lemma ch_up_after_setup :
  exists d0, drun ch_fn ch_fn ch_callsA ch_callsB dinit ch_setup = Some d0 /\ Up (da d0) /\ Up (db d0).
Proof.
  eexists. split; [vm_compute; reflexivity|]. split.
  - split.
    + eapply (H_step ch_callsA linit (Run TSetup) 0); [apply H_init|reflexivity|vm_compute; reflexivity].
    + split; vm_compute; reflexivity.
  - split.
    + eapply (H_step ch_callsB linit (Run TSetup) 0); [apply H_init|reflexivity|vm_compute; reflexivity].
    + split; vm_compute; reflexivity.
Qed.

Lemma ch_build_benign sd :
  Forall (fun a => forall c, proj ch_fn ch_fn sd a c -> benign c = true) ch_build.
Proof.
  unfold ch_build. repeat constructor; intros c Hp; destruct sd; simpl in Hp;
    try contradiction; try (subst c; reflexivity); try (destruct Hp as (x & ->); reflexivity).
Qed.

Lemma chain_state_reachable_lemma :
  exists d, drun ch_fn ch_fn ch_callsA ch_callsB dinit (ch_setup ++ ch_build) = Some d /\
            Up (da d) /\ Up (db d) /\ Forall (LevelOk d) ch_levels /\ ForallOrdPairs distinct ch_levels.
Proof.
  destruct ch_up_after_setup as (d0 & H0 & HUa & HUb).
  assert (Hb : exists d, drun ch_fn ch_fn ch_callsA ch_callsB d0 ch_build = Some d /\ Forall (LevelOk d) ch_levels).
  { vm_compute in H0. inversion H0; subst d0. eexists. split; [vm_compute; reflexivity|].
    unfold ch_levels. repeat constructor; vm_compute; try reflexivity; lia. }
  destruct Hb as (d & Hr & Hok). exists d.
  split; [rewrite (drun_app _ _ _ _ _ _ _ _ H0); exact Hr|].
  split; [apply (frame_Up ch_fn ch_fn ch_callsA ch_callsB true ch_build d0 d HUa Hr (ch_build_benign true))|].
  split; [apply (frame_Up ch_fn ch_fn ch_callsA ch_callsB false ch_build d0 d HUb Hr (ch_build_benign false))|].
  split; [exact Hok|].
  unfold ch_levels, distinct. repeat constructor; simpl; intros; try discriminate; try lia.
Qed.
