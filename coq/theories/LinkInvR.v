(* LinkInvR.v — C01 at the goroutine level: a call only ever returns the payload of a response
   frame that carried ITS OWN call id.  Invariant over every reachable state of Link.v (all
   schedules, faults, cancellations, any number of calls in flight, any order in which the peer's
   responses arrive): every response value travelling through publishers, the pending-call table,
   waiters and callers is attributed to the call whose id its frame carried. *)
From Verif Require Import Base Link LinkProofs LinkInv16 LinkInvB.

Definition resp := (N * N * option N)%type.

(* the response frames (id, value, error text) the environment delivered in a schedule *)
Fixpoint resp_of (cs : list (choice * nat)) : list resp :=
  match cs with
  | [] => []
  | (Env (EDeliverRes id x e), _) :: r => (id, x, e) :: resp_of r
  | _ :: r => resp_of r
  end.

(* a result that claims to come from the peer: nil error, or an error built from a response *)
Definition genuine (r : option err) : option (option N) :=
  match r with None => Some None | Some (EApp m) => Some (Some m) | Some _ => None end.

Definition own (en : list lentry) (ent : nat) : nat := le_owner (nth ent en dummy_le).

Definition thr_ok (D : list resp) (en : list lentry) (t : tname) (st : tstate) : Prop :=
  match t, st with
  | TPub _, PEnter id x e => In (id, x, e) D
  | TPub _, PFound ent x e => ent < length en /\ In (N.of_nat (own en ent), x, e) D
  | TPub _, PBlocked ent x e => ent < length en /\ In (N.of_nat (own en ent), x, e) D
  | TWaiter i, WStart ent => ent < length en /\ own en ent = i
  | TWaiter i, WBlocked ent => ent < length en /\ own en ent = i
  | TWaiter i, WWoke (WResp x e) => In (N.of_nat i, x, e) D
  | TWaiter _, WWoke (WCancelled e) => genuine (Some e) = None
  | TCall i, CRegistered ent => ent < length en /\ own en ent = i
  | TCall i, CSelected (Some (WResp x e)) => In (N.of_nat i, x, e) D
  | TCall _, CSelected (Some (WCancelled e)) => genuine (Some e) = None
  | TCall _, SetErrMid _ (KReturn e') => genuine (Some e') = None
  | _, _ => True
  end.

Definition thrs_ok (D : list resp) (s : lst) : Prop :=
  forall t st, tget (threads s) t = Some st -> thr_ok D (ents s) t st.
Definition tbl_ok (s : lst) : Prop :=
  forall id ent, lookupN id (tbl s) = Some ent -> ent < length (ents s) /\ id = N.of_nat (own (ents s) ent).
Definition nres1 (calls : list callspec) (i : nat) : bool := Nat.eqb (c_nres (nth i calls dflt_call)) 1.
Definition ret_ok (calls : list callspec) (D : list resp) (s : lst) : Prop :=
  forall i v r oe, In (EvReturn i v r) (evs s) -> genuine r = Some oe ->
    exists x, In (N.of_nat i, x, oe) D /\ v = (if nres1 calls i then zero else x).

Definition InvR (calls : list callspec) (D : list resp) (s : lst) : Prop :=
  thrs_ok D s /\ tbl_ok s /\ ret_ok calls D s.

(* ---------------------------------------------------------------- entries only grow *)
Definition ents_ext (en en' : list lentry) : Prop :=
  length en <= length en' /\ forall e, e < length en -> own en' e = own en e.

Lemma ents_ext_refl en : ents_ext en en.
Proof. split; auto. Qed.

Lemma ents_ext_app en x : ents_ext en (en ++ [x]).
Proof.
  split; [rewrite app_length; lia|]. intros e He. unfold own. rewrite app_nth1; auto.
Qed.

Lemma ents_ext_close en : ents_ext en (map (fun e => mkLE (le_parent e) true (le_owner e)) en).
Proof.
  split; [rewrite map_length; lia|]. intros e He. unfold own.
  change dummy_le with ((fun e0 => mkLE (le_parent e0) true (le_owner e0)) dummy_le) at 1.
  rewrite map_nth. reflexivity.
Qed.

Lemma nth_upd_eq {A} (l : list A) n x d : n < length l -> nth n (upd l n x) d = x.
Proof. intros H. apply nth_error_nth. apply nth_error_upd_eq; auto. Qed.

Lemma nth_upd_neq {A} (l : list A) n m x d : n <> m -> nth m (upd l n x) d = nth m l d.
Proof.
  intros H. destruct (nth_error l m) as [y|] eqn:E.
  - rewrite (nth_error_nth l m d E). apply nth_error_nth. rewrite nth_error_upd_neq; auto.
  - rewrite (nth_overflow l d) by (apply nth_error_None; auto).
    apply nth_overflow. rewrite upd_length. apply nth_error_None; auto.
Qed.

Lemma ents_ext_free en e x :
  nth_error en e = Some x -> ents_ext en (upd en e (mkLE (le_parent x) true (le_owner x))).
Proof.
  intros Hx. split; [rewrite upd_length; lia|]. intros e' He. unfold own.
  destruct (Nat.eq_dec e e') as [->|Hne].
  - rewrite nth_upd_eq by auto. rewrite (nth_error_nth en e' dummy_le Hx). reflexivity.
  - rewrite nth_upd_neq by auto. reflexivity.
Qed.

Lemma thr_ok_ext D D' en en' t st : incl D D' -> ents_ext en en' -> thr_ok D en t st -> thr_ok D' en' t st.
Proof.
  intros HD (HL & HO) H. destruct t; destruct st; simpl in *; auto;
    try (destruct H as (A & B); split; [lia|]; rewrite HO by auto; auto; fail);
    try (apply HD; exact H; fail).
  - destruct o as [[x e|e]|]; auto.
  - destruct r as [x e|e]; auto.
Qed.

(* ---------------------------------------------------------------- building blocks *)
Lemma InvR_core calls D D' s s' :
  incl D D' -> threads s' = threads s -> ents_ext (ents s) (ents s') ->
  (forall id ent, lookupN id (tbl s') = Some ent -> lookupN id (tbl s) = Some ent) ->
  evs s' = evs s -> InvR calls D s -> InvR calls D' s'.
Proof.
  intros HD A B C E (H1 & H2 & H3). split; [|split].
  - intros t st Ht. rewrite A in Ht. eapply thr_ok_ext; eauto.
  - intros id ent Hl. apply C in Hl. destruct (H2 _ _ Hl) as (P & Q). destruct B as (B1 & B2).
    split; [lia|]. rewrite B2; auto.
  - intros i v r oe Hin Hg. rewrite E in Hin. destruct (H3 _ _ _ _ Hin Hg) as (x & Hx & Hv). exists x; auto.
Qed.

Lemma InvR_ext calls D s s' :
  threads s' = threads s -> ents s' = ents s -> tbl s' = tbl s -> evs s' = evs s -> InvR calls D s -> InvR calls D s'.
Proof.
  intros A B C E H. apply (InvR_core calls D D s s'); auto; [apply incl_refl|rewrite B; apply ents_ext_refl|rewrite C; auto].
Qed.

Lemma InvR_mono calls D D' s : incl D D' -> InvR calls D s -> InvR calls D' s.
Proof. intros HD H. apply (InvR_core calls D D' s s); auto. apply ents_ext_refl. Qed.

Lemma InvR_setT calls D s t st : thr_ok D (ents s) t st -> InvR calls D s -> InvR calls D (setT s t st).
Proof.
  intros Hk (H1 & H2 & H3). split; [|split; [exact H2|exact H3]].
  intros t' st' Ht. unfold setT in Ht; simpl in Ht. rewrite tget_tset in Ht.
  destruct (tname_eqb t' t) eqn:E.
  - apply tname_eqb_eq in E; subst. inversion Ht; subst. exact Hk.
  - apply H1; auto.
Qed.

Lemma thr_ok_wake1 calls s D en t st : thr_ok D en t st -> thr_ok D en t (snd (wake1 calls s (t, st))).
Proof.
  intros H. destruct t; destruct st; simpl; auto;
    repeat match goal with |- context [if ?c then _ else _] => destruct c; simpl; auto end.
Qed.

Lemma InvR_wake calls D s : InvR calls D s -> InvR calls D (wake calls s).
Proof.
  intros (H1 & H2 & H3). split; [|split; [exact H2|exact H3]].
  intros t st Ht. unfold wake in Ht; simpl in Ht. rewrite tget_map_wake_gen in Ht.
  destruct (tget (threads s) t) as [st0|] eqn:E; [|discriminate]. simpl in Ht. inversion Ht; subst.
  apply thr_ok_wake1. apply H1; auto.
Qed.

Lemma InvR_do_close calls D s : InvR calls D s -> InvR calls D (do_close s).
Proof.
  intros H. apply (InvR_core calls D D s (do_close s)); auto; try reflexivity; [apply incl_refl|apply ents_ext_close|].
  simpl. discriminate.
Qed.

Lemma InvR_do_free calls D s id : InvR calls D s -> InvR calls D (do_free s id).
Proof.
  intros H. unfold do_free. destruct (lookupN id (tbl s)) as [e|] eqn:E; [|exact H].
  match goal with |- InvR _ _ ?x => apply (InvR_core calls D D s x); auto; try reflexivity end; [apply incl_refl| |].
  - simpl. destruct (nth_error (ents s) e) eqn:En; [apply ents_ext_free; auto|apply ents_ext_refl].
  - simpl. intros id' ent Hl. destruct (N.eq_dec id id') as [->|Hne].
    + rewrite lookupN_removeN_same in Hl. discriminate.
    + rewrite lookupN_removeN_other in Hl; auto.
Qed.

Lemma InvR_take_fault calls D s k o s1 : take_fault s k = (o, s1) -> InvR calls D s -> InvR calls D s1.
Proof. intros E H. unfold take_fault in E. destruct k as [|[|[|k]]]; inversion E; subst; (eapply InvR_ext; [| | | |exact H]; reflexivity). Qed.

Lemma InvR_with_flt calls D s f : InvR calls D s -> InvR calls D (with_flt s f).
Proof. intros H. eapply InvR_ext; [| | | |exact H]; reflexivity. Qed.
Lemma InvR_with_closures calls D s c : InvR calls D s -> InvR calls D (with_closures s c).
Proof. intros H. eapply InvR_ext; [| | | |exact H]; reflexivity. Qed.

Definition not_return (e : event) : Prop := match e with EvReturn _ _ _ => False | _ => True end.

Lemma InvR_evs calls D s s' e :
  not_return e -> threads s' = threads s -> ents s' = ents s -> tbl s' = tbl s -> evs s' = e :: evs s ->
  InvR calls D s -> InvR calls D s'.
Proof.
  intros Hn A B C E (H1 & H2 & H3). split; [|split].
  - intros t st Ht. rewrite A in Ht. rewrite B. auto.
  - intros id ent Hl. rewrite C in Hl. rewrite B. auto.
  - intros i v r oe Hin Hg. rewrite E in Hin. destruct Hin as [Heq|Hin]; [subst e; contradiction|eauto].
Qed.

Lemma InvR_with_ev calls D s e : not_return e -> InvR calls D s -> InvR calls D (with_ev s e).
Proof. intros Hn H. apply (InvR_evs calls D s (with_ev s e) e); auto. Qed.

Lemma InvR_with_ev_return calls D s i v r :
  (forall oe, genuine r = Some oe -> exists x, In (N.of_nat i, x, oe) D /\ v = (if nres1 calls i then zero else x)) ->
  InvR calls D s -> InvR calls D (with_ev s (EvReturn i v r)).
Proof.
  intros Hr (H1 & H2 & H3). split; [exact H1|split; [exact H2|]].
  intros i' v' r' oe Hin Hg. simpl in Hin. destruct Hin as [Heq|Hin]; [inversion Heq; subst; auto|eauto].
Qed.

Lemma InvR_begin_seterr calls D s t e k :
  thr_ok D (ents (do_close s)) t (SetErrMid e k) -> InvR calls D s -> InvR calls D (begin_seterr calls s t e k).
Proof. intros Hk H. unfold begin_seterr. apply InvR_wake. apply InvR_setT; auto. apply InvR_do_close; auto. Qed.

Lemma InvR_caller_panic calls D s i e : genuine (Some e) = None -> InvR calls D s -> InvR calls D (caller_panic calls s i e).
Proof. intros Hg H. unfold caller_panic. apply InvR_begin_seterr; [exact Hg|]. apply InvR_with_closures; auto. Qed.

Lemma InvR_caller_return calls D s i v r :
  (forall oe, genuine r = Some oe -> exists x, In (N.of_nat i, x, oe) D /\ v = (if nres1 calls i then zero else x)) ->
  InvR calls D s -> InvR calls D (caller_return s i v r).
Proof.
  intros Hr H. unfold caller_return. apply InvR_with_ev_return; auto. apply InvR_setT; [exact I|].
  apply InvR_with_closures; auto.
Qed.

Lemma InvR_loop_again calls D s t st :
  (forall i, t <> TCall i) -> thr_ok D (ents s) t st -> InvR calls D s -> InvR calls D (loop_again calls s t st).
Proof.
  intros Hn Hk H. unfold loop_again. destruct (memN 0%N (cancelled s)).
  - apply InvR_begin_seterr; auto. destruct t; simpl; auto.
  - apply InvR_setT; auto.
Qed.

Lemma InvR_loop_done calls D s : InvR calls D s -> InvR calls D (loop_done s).
Proof.
  intros H. unfold loop_done. cbv zeta.
  match goal with |- InvR _ _ (if ?c then _ else ?x) =>
    assert (Hx : InvR calls D x) by (eapply InvR_ext; [| | | |exact H]; reflexivity); destruct c; auto end.
  match goal with |- InvR _ _ (match ?o with _ => _ end) => destruct o as [[]|]; auto end.
  apply InvR_setT; auto. exact I.
Qed.

Lemma InvR_do_store calls D v s e : InvR calls D s -> InvR calls D (do_store v s e).
Proof.
  intros H. unfold do_store. cbv zeta.
  match goal with |- InvR _ _ (match tget (threads ?x) TLink with _ => _ end) =>
    assert (Hx : InvR calls D x) by (eapply InvR_evs; [| | | | |exact H]; try reflexivity; exact I);
    destruct (tget (threads x) TLink) as [[]|]; auto end.
  apply InvR_setT; auto. exact I.
Qed.

Lemma InvR_handler_respond calls D s n v e : InvR calls D s -> InvR calls D (handler_respond calls s n v e).
Proof.
  intros H. unfold handler_respond.
  destruct (take_fault s 2) as [[x|] s1] eqn:E1.
  - apply InvR_begin_seterr; [exact I|]. eapply InvR_take_fault; eauto.
  - assert (H1 : InvR calls D s1) by (eapply InvR_take_fault; eauto).
    destruct (memN 0%N (cancelled s1)); [apply InvR_begin_seterr; [exact I|auto]|].
    destruct (take_fault s1 1) as [[x|] s2] eqn:E2.
    + apply InvR_begin_seterr; [exact I|]. eapply InvR_take_fault; eauto.
    + apply InvR_with_ev; [exact I|]. apply InvR_setT; [exact I|]. eapply InvR_take_fault; eauto.
Qed.

(* ---------------------------------------------------------------- the sub-steps *)
Definition D_after (D : list resp) (a : envact) : list resp :=
  match a with EDeliverRes id x e => (id, x, e) :: D | _ => D end.

Lemma incl_D_after D a : incl D (D_after D a).
Proof. destruct a; simpl; try apply incl_refl. apply incl_tl, incl_refl. Qed.

Lemma InvR_register calls D s i cs bc :
  InvR calls D s ->
  InvR calls D (mkL (tset (threads s) (TCall i) (CRegistered (length (ents s)))) ((N.of_nat i, length (ents s)) :: tbl s) bc
                  (ents s ++ [mkLE (c_ctx cs) false i]) (cancelled s) (fatal s)
                  (closures s) (remotes s) (loops_done s) (flt s) (npub s) (nreq s) (evs s) (crashed s)).
Proof.
  intros (H1 & H2 & H3).
  assert (Hown : own (ents s ++ [mkLE (c_ctx cs) false i]) (length (ents s)) = i).
  { unfold own. rewrite app_nth2 by lia. rewrite Nat.sub_diag. reflexivity. }
  split; [|split].
  - intros t st Ht. simpl in Ht. rewrite tget_tset in Ht. simpl. destruct (tname_eqb t (TCall i)) eqn:E.
    + apply tname_eqb_eq in E; subst. inversion Ht; subst. simpl. split; [rewrite app_length; simpl; lia|exact Hown].
    + eapply thr_ok_ext; [apply incl_refl|apply ents_ext_app|apply H1; auto].
  - intros id ent Hl. simpl in Hl. simpl. destruct (N.eqb id (N.of_nat i)) eqn:E.
    + apply N.eqb_eq in E. inversion Hl; subst. split; [rewrite app_length; simpl; lia|]. rewrite Hown. reflexivity.
    + destruct (H2 _ _ Hl) as (P & Q). split; [rewrite app_length; lia|].
      destruct (ents_ext_app (ents s) (mkLE (c_ctx cs) false i)) as (_ & B). rewrite B; auto.
  - exact H3.
Qed.

Lemma InvR_env calls D s a s' : InvR calls D s -> step_env fixed calls s a = Some s' -> InvR calls (D_after D a) s'.
Proof.
  intros HI H. unfold step_env in H. destruct a as [i|id x e| |n|f arg| |n|c|which n]; simpl D_after.
  - (* EStart *)
    destruct (tget (threads s) (TCall i)) eqn:Ht; [discriminate|].
    destruct (nth_error calls i) as [cs|] eqn:Hn; [|discriminate].
    set (s0 := if c_closure cs then with_closures s (i :: closures s) else s) in *.
    assert (H0 : InvR calls D s0) by (unfold s0; destruct (c_closure cs); [apply InvR_with_closures|]; auto).
    destruct (take_fault s0 2) as [[x|] s1] eqn:E1.
    + inversion H; subst. apply InvR_caller_panic; [reflexivity|]. eapply InvR_take_fault; eauto.
    + assert (H1 : InvR calls D s1) by (eapply InvR_take_fault; eauto).
      destruct (bclosed s1) eqn:Eb; inversion H; subst.
      * apply InvR_caller_return; [intros oe Hg; discriminate|auto].
      * apply InvR_register; auto.
  - (* EDeliverRes *)
    destruct (tget (threads s) TResLoop) as [[]|] eqn:Ht; try discriminate.
    assert (HI' : InvR calls ((id, x, e) :: D) s) by (eapply InvR_mono; [|exact HI]; apply incl_tl, incl_refl).
    destruct (take_fault s 3) as [[y|] s1] eqn:E1; inversion H; subst.
    + apply InvR_begin_seterr; [exact I|]. eapply InvR_take_fault; eauto.
    + apply InvR_loop_again; [discriminate|exact I|].
      assert (H1 : InvR calls ((id, x, e) :: D) s1) by (eapply InvR_take_fault; eauto).
      destruct H1 as (K1 & K2 & K3). split; [|split; [exact K2|exact K3]].
      intros t st Hg. simpl in Hg. rewrite tget_tset in Hg. simpl. destruct (tname_eqb t (TPub (npub s1))) eqn:E.
      * apply tname_eqb_eq in E; subst. inversion Hg; subst. simpl. auto.
      * apply K1; auto.
  - destruct (tget (threads s) TResLoop) as [[]|] eqn:Ht; try discriminate.
    destruct (take_fault s 3) as [[y|] s1] eqn:E1; inversion H; subst;
      (apply InvR_begin_seterr; [exact I|]; eapply InvR_take_fault; eauto).
  - destruct (tget (threads s) TResLoop) as [[]|] eqn:Ht; try discriminate. inversion H; subst.
    apply InvR_begin_seterr; [exact I|auto].
  - (* EDeliverReq *)
    destruct (tget (threads s) TReqLoop) as [[]|] eqn:Ht; try discriminate.
    destruct (take_fault s 3) as [[y|] s1] eqn:E1; inversion H; subst.
    + apply InvR_begin_seterr; [exact I|]. eapply InvR_take_fault; eauto.
    + apply InvR_loop_again; [discriminate|exact I|].
      assert (H1 : InvR calls D s1) by (eapply InvR_take_fault; eauto).
      destruct H1 as (K1 & K2 & K3). split; [|split; [exact K2|exact K3]].
      intros t st Hg. simpl in Hg. rewrite tget_tset in Hg. simpl. destruct (tname_eqb t (TReq (nreq s1))) eqn:E.
      * apply tname_eqb_eq in E; subst. inversion Hg; subst. exact I.
      * apply K1; auto.
  - destruct (tget (threads s) TReqLoop) as [[]|] eqn:Ht; try discriminate.
    destruct (take_fault s 3) as [[y|] s1] eqn:E1; inversion H; subst;
      (apply InvR_begin_seterr; [exact I|]; eapply InvR_take_fault; eauto).
  - destruct (tget (threads s) TReqLoop) as [[]|] eqn:Ht; try discriminate. inversion H; subst.
    apply InvR_begin_seterr; [exact I|auto].
  - destruct (memN c (cancelled s)); [discriminate|]. inversion H; subst.
    apply InvR_wake. eapply InvR_ext; [| | | |exact HI]; reflexivity.
  - inversion H; subst. apply InvR_with_flt; auto.
Qed.

Lemma InvR_caller calls D s i st s' :
  tget (threads s) (TCall i) = Some st -> InvR calls D s -> step_caller calls s i st = Some s' -> InvR calls D s'.
Proof.
  intros Ht HI H. pose proof (proj1 HI _ _ Ht) as Hk. unfold step_caller in H. destruct st; try discriminate.
  - (* CRegistered *)
    set (s0 := setT s (TWaiter i) (WStart ent)) in *.
    assert (H0 : InvR calls D s0) by (unfold s0; apply InvR_setT; auto).
    destruct (memN 0%N (cancelled s0)); [inversion H; subst; apply InvR_caller_panic; [reflexivity|auto]|].
    destruct (take_fault s0 0) as [[x|] s1] eqn:E1; inversion H; subst.
    + apply InvR_caller_panic; [reflexivity|]. eapply InvR_take_fault; eauto.
    + apply InvR_with_ev; [exact I|]. apply InvR_setT; [exact I|]. eapply InvR_take_fault; eauto.
  - (* CSelected *)
    destruct o as [[x e|e]|].
    + simpl in Hk. fold (nres1 calls i) in H. destruct (nres1 calls i) eqn:En.
      * inversion H; subst. apply InvR_caller_return; auto.
        intros oe Hg. destruct e; simpl in Hg; inversion Hg; subst; exists x; rewrite En; auto.
      * destruct (take_fault s 3) as [[y|] s1] eqn:E1; inversion H; subst.
        -- apply InvR_caller_panic; [reflexivity|]. eapply InvR_take_fault; eauto.
        -- apply InvR_caller_return; [|eapply InvR_take_fault; eauto].
           intros oe Hg. destruct e; simpl in Hg; inversion Hg; subst; exists x; rewrite En; auto.
    + simpl in Hk. inversion H; subst. apply InvR_caller_return; auto. intros oe Hg. simpl in Hg. rewrite Hk in Hg. discriminate.
    + inversion H; subst. apply InvR_caller_panic; [reflexivity|auto].
Qed.

Lemma tget_do_store_other v s e t : t <> TLink -> tget (threads (do_store v s e)) t = tget (threads s) t.
Proof.
  intros Hn. unfold do_store. simpl. destruct (tget (threads s) TLink) as [[]|]; try reflexivity.
  unfold setT; simpl. apply tget_tset_other. congruence.
Qed.

Lemma InvR_seterr calls D s t e k s' :
  tget (threads s) t = Some (SetErrMid e k) -> InvR calls D s -> step_seterr fixed s t e k = Some s' -> InvR calls D s'.
Proof.
  intros Ht HI H. pose proof (proj1 HI _ _ Ht) as Hk. unfold step_seterr in H.
  destruct (tname_eqb t TLink) eqn:El; [discriminate|].
  assert (H1 : InvR calls D (do_store fixed s e)) by (apply InvR_do_store; auto).
  destruct k as [|e'|].
  - inversion H; subst. apply InvR_setT; auto; try (destruct t; exact I).
  - destruct t; inversion H; subst; try (apply InvR_setT; [exact I|auto]).
    simpl in Hk. apply InvR_with_ev_return; [intros oe Hg; simpl in Hg; rewrite Hk in Hg; discriminate|]. apply InvR_setT; [exact I|auto].
  - inversion H; subst. apply InvR_loop_done. apply InvR_setT; auto; try (destruct t; exact I).
Qed.

Lemma InvR_waiter calls D s i st b s' :
  tget (threads s) (TWaiter i) = Some st -> InvR calls D s -> step_waiter fixed calls s i st b = Some s' -> InvR calls D s'.
Proof.
  intros Ht HI H. pose proof (proj1 HI _ _ Ht) as Hk. unfold step_waiter in H. destruct st; try discriminate.
  - (* WStart *)
    simpl in Hk.
    match type of H with (match ?c with _ => _ end) = _ => destruct c eqn:Ec end.
    + unfold only0 in H. destruct b; inversion H; subst. apply InvR_setT; auto.
    + match type of H with (match ?c with _ => _ end) = _ => destruct c as [[n| |]|] eqn:En end; try discriminate.
      * destruct (tget (threads s) (TPub n)) as [[]|] eqn:Hp; try discriminate.
        match type of H with (if ?c then _ else _) = _ => destruct c eqn:Eq end; [|discriminate].
        apply Nat.eqb_eq in Eq. subst ent0. inversion H; subst.
        pose proof (proj1 HI _ _ Hp) as Hpk. simpl in Hpk. destruct Hpk as (P & Q). destruct Hk as (K1 & K2).
        apply InvR_setT; [simpl; rewrite <- K2; exact Q|]. apply InvR_setT; [exact I|auto].
      * inversion H; subst. apply InvR_setT; [reflexivity|auto].
      * inversion H; subst. apply InvR_setT; [|auto]. simpl. unfold ctx_or_closed. destruct (memN _ _); reflexivity.
  - (* WWoke *)
    unfold only0 in H. destruct b; [|discriminate]. simpl in H.
    destruct (tget (threads s) (TCall i)) as [[]|]; inversion H; subst;
      try (apply InvR_setT; [exact I|auto]; fail).
    apply InvR_setT; [exact I|]. apply InvR_setT; auto; try (simpl; destruct r; exact Hk).
  - (* WDeposited *)
    unfold only0 in H. destruct b; inversion H; subst. apply InvR_wake. apply InvR_setT; [exact I|].
    apply InvR_do_free; auto.
Qed.

Lemma InvR_pub calls D s n st b s' :
  tget (threads s) (TPub n) = Some st -> InvR calls D s -> step_pub s n st b = Some s' -> InvR calls D s'.
Proof.
  intros Ht HI H. pose proof (proj1 HI _ _ Ht) as Hk. unfold step_pub in H. destruct st; try discriminate.
  - (* PEnter *)
    simpl in Hk. unfold only0 in H. destruct b; [|discriminate].
    destruct (bclosed s); [inversion H; subst; apply InvR_with_ev; [exact I|]; apply InvR_setT; [exact I|auto]|].
    destruct (lookupN id (tbl s)) as [ent|] eqn:El; inversion H; subst.
    + destruct HI as (K1 & K2 & K3). destruct (K2 _ _ El) as (P & Q). subst id.
      apply InvR_setT; [simpl; auto|]. split; auto.
    + apply InvR_with_ev; [exact I|]. apply InvR_setT; [exact I|auto].
  - (* PFound *)
    simpl in Hk.
    match type of H with (match ?c with _ => _ end) = _ => destruct c eqn:Ec end.
    + unfold only0 in H. destruct b; inversion H; subst. apply InvR_setT; auto.
    + match type of H with (match ?c with _ => _ end) = _ => destruct c as [[i|]|] eqn:En end; try discriminate.
      * destruct (tget (threads s) (TWaiter i)) as [[]|] eqn:Hw; try discriminate.
        match type of H with (if ?c then _ else _) = _ => destruct c eqn:Eq end; [|discriminate].
        apply Nat.eqb_eq in Eq. subst ent0. inversion H; subst.
        pose proof (proj1 HI _ _ Hw) as Hwk. simpl in Hwk. destruct Hwk as (P & Q). destruct Hk as (K1 & K2).
        apply InvR_setT; [exact I|]. apply InvR_setT; [simpl; rewrite <- Q; exact K2|auto].
      * inversion H; subst. apply InvR_setT; [exact I|auto].
  - unfold only0 in H. destruct b; inversion H; subst. apply InvR_setT; [exact I|auto].
  - unfold only0 in H. destruct b; inversion H; subst. apply InvR_setT; [exact I|auto].
Qed.

Lemma InvR_callee calls D s t n st s' : InvR calls D s -> step_callee calls s t n st = Some s' -> InvR calls D s'.
Proof.
  intros HI H. unfold step_callee in H. destruct t; try discriminate; destruct st; try discriminate.
  - destruct f; try (inversion H; subst; apply InvR_begin_seterr; [exact I|auto]; fail);
      destruct (take_fault s 3) as [[y|] s1] eqn:E1; inversion H; subst;
      try (apply InvR_begin_seterr; [exact I|]; eapply InvR_take_fault; eauto; fail);
      (apply InvR_setT; [exact I|]; apply InvR_setT; [exact I|]; eapply InvR_take_fault; eauto).
  - assert (H1 : forall m, InvR calls D (with_ev s (EvInvoked m f arg))) by (intros m; apply InvR_with_ev; [exact I|auto]).
    destruct f; try (inversion H; subst; apply InvR_begin_seterr; [exact I|auto]; fail);
      try (inversion H; subst; apply InvR_setT; [exact I|auto]; fail);
      try (destruct (handler_result _ arg) as [[x e]|]; inversion H; subst; apply InvR_handler_respond; auto).
  - inversion H; subst. apply InvR_handler_respond; auto.
Qed.

Lemma InvR_infra calls D s t st s' : InvR calls D s -> step_infra fixed calls s t st = Some s' -> InvR calls D s'.
Proof.
  intros HI H. unfold step_infra in H. destruct t; try discriminate; destruct st; try discriminate.
  - inversion H; subst. apply InvR_begin_seterr; [exact I|auto].
  - destruct (fatal s); inversion H; subst; (apply InvR_setT; [exact I|auto]).
  - inversion H; subst. apply InvR_with_ev; [exact I|]. apply InvR_setT; [exact I|auto].
  - inversion H; subst. apply InvR_loop_again; [discriminate|exact I|]. apply InvR_loop_again; [discriminate|exact I|].
    apply InvR_setT; [exact I|].
    destruct HI as (K1 & K2 & K3). split; [exact K1|split; [exact K2|]].
    intros i v r oe Hin Hg. simpl in Hin. apply K3 with (r := r); auto.
    destruct Hin as [Hq|[Hq|Hin]]; try discriminate; auto.
  - inversion H; subst.
    destruct HI as (K1 & K2 & K3). split; [|split; [exact K2|]].
    + intros t st Hg. simpl in Hg. rewrite tget_tset in Hg. simpl. destruct (tname_eqb t TSetup) eqn:E.
      * apply tname_eqb_eq in E; subst. inversion Hg; subst. exact I.
      * apply K1; auto.
    + intros i v r oe Hin Hg. simpl in Hin. apply K3 with (r := r); auto.
      destruct Hin as [Hq|[Hq|Hin]]; try discriminate; auto.
Qed.

Lemma InvR_init calls : InvR calls [] linit.
Proof.
  split; [|split].
  - intros t st H. unfold linit, init_threads in H. simpl in H.
    destruct t; simpl in H; try discriminate; inversion H; subst; exact I.
  - intros id ent H. discriminate.
  - intros i v r oe H. destruct H.
Qed.

Definition D_step (D : list resp) (c : choice) : list resp :=
  match c with Env a => D_after D a | _ => D end.

Lemma InvR_step calls D s c b s' : InvR calls D s -> lstep fixed calls s c b = Some s' -> InvR calls (D_step D c) s'.
Proof.
  intros HI H. unfold lstep in H. destruct (crashed s); [discriminate|].
  destruct c as [t|a]; simpl D_step.
  - destruct (tget (threads s) t) as [st|] eqn:Ht; [|discriminate].
    destruct st;
      try (unfold only0 in H; destruct b; [|discriminate]; eapply InvR_seterr; eauto; fail);
      destruct t;
      try (unfold only0 in H; destruct b; [|discriminate]);
      try (eapply InvR_caller; eauto; fail);
      try (eapply InvR_waiter; eauto; fail);
      try (eapply InvR_pub; eauto; fail);
      try (eapply InvR_callee; eauto; fail);
      try (eapply InvR_infra; eauto; fail);
      try discriminate.
  - unfold only0 in H. destruct b; [|discriminate]. eapply InvR_env; eauto.
Qed.

Lemma In_D_step D c x : In x (D_step D c) -> In x D \/ exists b, In x (resp_of [(c, b)]).
Proof.
  destruct c as [t|a]; simpl; auto. destruct a; simpl; auto. intros [H|H]; auto. right. exists 0. simpl. auto.
Qed.

Lemma resp_of_cons c b r x : In x (resp_of ((c, b) :: r)) <-> In x (resp_of [(c, b)]) \/ In x (resp_of r).
Proof.
  destruct c as [t|a]; simpl; [tauto|]. destruct a; simpl; tauto.
Qed.

Lemma InvR_run calls cs : forall D s0 s,
  InvR calls D s0 -> lrun fixed calls s0 cs = Some s ->
  exists D', InvR calls D' s /\ forall x, In x D' -> In x D \/ In x (resp_of cs).
Proof.
  induction cs as [|[c b] r IH]; intros D s0 s H0 H; simpl in H.
  - inversion H; subst. exists D. split; auto.
  - destruct (lstep fixed calls s0 c b) eqn:E; [|discriminate].
    destruct (IH _ _ _ (InvR_step _ _ _ _ _ _ H0 E) H) as (D' & HI & Hsub).
    exists D'. split; auto. intros x Hx. destruct (Hsub x Hx) as [Hd|Hr].
    + destruct (In_D_step _ _ _ Hd) as [Hd'|(b' & Hb)]; auto.
      right. apply resp_of_cons. left. destruct c as [t|a]; simpl in *; auto; try (destruct a; simpl in *; auto).
    + right. apply resp_of_cons. auto.
Qed.

(* whatever a call returns as coming from the peer is the payload of a response frame that carried
   this call's own id — for every schedule, any number of calls in flight, any arrival order *)
Lemma response_routing_lemma calls cs s i v r oe :
  lrun fixed calls linit cs = Some s ->
  In (EvReturn i v r) (evs s) -> genuine r = Some oe ->
  exists x, In (N.of_nat i, x, oe) (resp_of cs) /\ v = (if nres1 calls i then zero else x).
Proof.
  intros Hr Hin Hg. destruct (InvR_run calls cs [] linit s (InvR_init calls) Hr) as (D' & (_ & _ & K3) & Hsub).
  destruct (K3 _ _ _ _ Hin Hg) as (x & Hx & Hv). exists x. split; auto.
  destruct (Hsub _ Hx) as [[]|]; auto.
Qed.

(* the premises are met with responses arriving in the opposite order of the calls *)
Definition rr_calls : list callspec := [mkCall 1 2 false 10; mkCall 2 2 false 11; mkCall 3 1 false 12].
Definition rr_schedule : list (choice * nat) :=
  [(Run TSetup, 0); (Env (EStart 0), 0); (Env (EStart 1), 0); (Env (EStart 2), 0);
   (Run (TCall 0), 0); (Run (TCall 1), 0); (Run (TCall 2), 0);
   (Run (TWaiter 0), 0); (Run (TWaiter 1), 0); (Run (TWaiter 2), 0);
   (Env (EDeliverRes 2%N 72%N (Some 5%N)), 0); (Env (EDeliverRes 1%N 71%N None), 0); (Env (EDeliverRes 0%N 70%N None), 0);
   (Run (TPub 0), 0); (Run (TPub 1), 0); (Run (TPub 2), 0);
   (Run (TPub 2), 0); (Run (TPub 0), 0); (Run (TPub 1), 0);
   (Run (TWaiter 1), 0); (Run (TWaiter 0), 0); (Run (TWaiter 2), 0);
   (Run (TCall 2), 0); (Run (TCall 0), 0); (Run (TCall 1), 0)].

Example response_routing_example :
  exists s, lrun fixed rr_calls linit rr_schedule = Some s /\
            In (EvReturn 0 70%N None) (evs s) /\ In (EvReturn 1 71%N None) (evs s) /\
            In (EvReturn 2 zero (Some (EApp 5%N))) (evs s).
Proof. eexists. split; [vm_compute; reflexivity|]. simpl. tauto. Qed.
