(* Pair.v — two endpoints joined by a network: endpoint A (the caller side of interest) and endpoint
   B (its peer), each an instance of Link.v with its own calls, schedule, faults and cancellations.
   The network may delay, reorder, DUPLICATE and DROP frames, and may turn a frame into an undecodable
   one (EBadReq / EBadRes remain free steps of either endpoint); what it does not do is forge a
   decodable frame: a request B accepts as coming from A's call i is a frame call i wrote, and a
   response A accepts is a frame B wrote, re-labelled with the call id of the request it answers
   (the callee copies the request's call id into the response: registry.go, the handler goroutine).
   Link.v abstracts the id on the callee side to the request's arrival number n; [dreq] records
   which call of A the n-th accepted request came from.
   Nothing here is new behaviour: every transition is an lstep of one endpoint. *)
From Verif Require Import Base Link.

Section Pair.
Variable fn : nat -> fnkind.                  (* the exposed function that call i of A names *)
Variables callsA callsB : list callspec.

Record pst := mkP { pa : lst; pb : lst; dreq : list nat }.

Inductive pact :=
| PA (c : choice) (b : nat)      (* endpoint A moves (anything but accepting a response frame) *)
| PB (c : choice) (b : nat)      (* endpoint B moves (anything but accepting a request frame) *)
| NReq (i : nat)                 (* the network hands the request frame written by A's call i to B *)
| NRes (n : nat).                (* the network hands the response frame B wrote for its n-th request to A *)

Definition is_res_delivery (c : choice) : bool :=
  match c with Env (EDeliverRes _ _ _) => true | _ => false end.
Definition is_req_delivery (c : choice) : bool :=
  match c with Env (EDeliverReq _ _) => true | _ => false end.

Fixpoint req_written (l : list event) (i : nat) : option N :=
  match l with
  | [] => None
  | EvReqWritten j arg _ :: r => if Nat.eqb i j then Some arg else req_written r i
  | _ :: r => req_written r i
  end.

Fixpoint res_written (l : list event) (n : nat) : option (N * option N) :=
  match l with
  | [] => None
  | EvResWritten m v e :: r => if Nat.eqb n m then Some (v, e) else res_written r n
  | _ :: r => res_written r n
  end.

Definition pstep (p : pst) (a : pact) : option pst :=
  match a with
  | PA c b =>
      if is_res_delivery c then None else
      match lstep fixed callsA (pa p) c b with
      | Some a' => Some (mkP a' (pb p) (dreq p))
      | None => None
      end
  | PB c b =>
      if is_req_delivery c then None else
      match lstep fixed callsB (pb p) c b with
      | Some b' => Some (mkP (pa p) b' (dreq p))
      | None => None
      end
  | NReq i =>
      match req_written (evs (pa p)) i with
      | Some arg =>
          match lstep fixed callsB (pb p) (Env (EDeliverReq (fn i) arg)) 0 with
          | Some b' => Some (mkP (pa p) b' (if Nat.eqb (nreq b') (S (nreq (pb p))) then dreq p ++ [i] else dreq p))
          | None => None
          end
      | None => None
      end
  | NRes n =>
      match res_written (evs (pb p)) n, nth_error (dreq p) n with
      | Some (v, e), Some i =>
          match lstep fixed callsA (pa p) (Env (EDeliverRes (N.of_nat i) v e)) 0 with
          | Some a' => Some (mkP a' (pb p) (dreq p))
          | None => None
          end
      | _, _ => None
      end
  end.

Fixpoint prun (p : pst) (l : list pact) : option pst :=
  match l with
  | [] => Some p
  | a :: r => match pstep p a with Some p' => prun p' r | None => None end
  end.

Definition pinit : pst := mkP linit linit [].
Definition preachable (p : pst) : Prop := exists l, prun pinit l = Some p.

End Pair.
