(* LinkNames.v — every goroutine of an endpoint has one entry in the thread table: the names of
   [threads s] are pairwise distinct in every reachable state (the table is only ever changed by
   [tset], which replaces in place or appends a new name, and by the wake-up map, which keeps names).
   Consequence used by the call-chain theorems: a publisher listed as blocked on an entry IS what
   [tget] returns for its name, so a waiter that finds a hand-off case ready can take it. *)
From Verif Require Import Base Link LinkProofs LinkInv16 LinkInvB.

Definition ND (s : lst) : Prop := NoDup (map fst (threads s)).

Lemma tset_names l t st :
  map fst (tset l t st) = if existsb (tname_eqb t) (map fst l) then map fst l else map fst l ++ [t].
Proof.
  induction l as [|[t' st'] r IH]; simpl; [reflexivity|].
  destruct (tname_eqb t t') eqn:E; simpl; [reflexivity|].
  rewrite IH. destruct (existsb (tname_eqb t) (map fst r)); reflexivity.
Qed.

Lemma existsb_tname_false t l : existsb (tname_eqb t) l = false -> ~ In t l.
Proof.
  intros H Hin. assert (existsb (tname_eqb t) l = true) by (apply existsb_exists; exists t; split; [exact Hin|apply tname_eqb_refl]).
  congruence.
Qed.

Lemma NoDup_app_snoc {A} (l : list A) (t : A) : NoDup l -> ~ In t l -> NoDup (l ++ [t]).
Proof.
  induction l as [|a r IH]; intros H Hn; simpl; [constructor; [intros []|constructor]|].
  inversion H as [|? ? Ha Hr]; subst. constructor.
  - rewrite in_app_iff. intros [Hi|[Hi|[]]]; [contradiction|]. subst. apply Hn. left; reflexivity.
  - apply IH; [exact Hr|]. intros Hi. apply Hn. right; exact Hi.
Qed.

Lemma NoDup_tset l t st : NoDup (map fst l) -> NoDup (map fst (tset l t st)).
Proof.
  intros H. rewrite tset_names. destruct (existsb (tname_eqb t) (map fst l)) eqn:E; [exact H|].
  apply NoDup_app_snoc; [exact H|apply existsb_tname_false; exact E].
Qed.

Lemma wake1_fst calls s p : fst (wake1 calls s p) = fst p.
Proof.
  destruct p as [t st]. unfold wake1.
  destruct t; try reflexivity; destruct st; try reflexivity; simpl;
    repeat match goal with |- context [if ?c then _ else _] => destruct c end; reflexivity.
Qed.

Lemma ND_ext s s' : threads s' = threads s -> ND s -> ND s'.
Proof. unfold ND. intros ->. auto. Qed.
Lemma ND_setT s t st : ND s -> ND (setT s t st).
Proof. unfold ND, setT; simpl. apply NoDup_tset. Qed.
Lemma ND_wake calls s : ND s -> ND (wake calls s).
Proof.
  unfold ND, wake; simpl. intros H. rewrite map_map.
  rewrite (map_ext _ fst); [exact H|]. intros p. apply wake1_fst.
Qed.
Lemma ND_do_free s id : ND s -> ND (do_free s id).
Proof. intros H. unfold do_free. destruct (lookupN id (tbl s)); [apply (ND_ext s); auto|exact H]. Qed.
Lemma ND_with_ev s e : ND s -> ND (with_ev s e).
Proof. apply ND_ext; reflexivity. Qed.
Lemma ND_with_flt s f : ND s -> ND (with_flt s f).
Proof. apply ND_ext; reflexivity. Qed.
Lemma ND_with_closures s c : ND s -> ND (with_closures s c).
Proof. apply ND_ext; reflexivity. Qed.
Lemma ND_do_close s : ND s -> ND (do_close s).
Proof. apply ND_ext; reflexivity. Qed.
Lemma ND_take_fault s k o s1 : take_fault s k = (o, s1) -> ND s -> ND s1.
Proof. intros E H. unfold take_fault in E. destruct k as [|[|[|k]]]; inversion E; subst; (apply (ND_ext s); [reflexivity|exact H]). Qed.
Lemma ND_begin_seterr calls s t e k : ND s -> ND (begin_seterr calls s t e k).
Proof. intros H. unfold begin_seterr. apply ND_wake. apply ND_setT. apply ND_do_close. exact H. Qed.
Lemma ND_loop_again calls s t st : ND s -> ND (loop_again calls s t st).
Proof. intros H. unfold loop_again. destruct (memN 0%N (cancelled s)); [apply ND_begin_seterr; auto|apply ND_setT; auto]. Qed.
Lemma ND_loop_done s : ND s -> ND (loop_done s).
Proof.
  intros H. unfold loop_done. cbv zeta.
  match goal with |- ND (if ?c then _ else ?x) =>
    assert (Hx : ND x) by (apply (ND_ext s); auto); destruct c; auto end.
  match goal with |- ND (match ?o with _ => _ end) => destruct o as [[]|]; auto end.
  apply ND_setT; auto.
Qed.
Lemma ND_do_store v s e : ND s -> ND (do_store v s e).
Proof.
  intros H. unfold do_store. cbv zeta.
  match goal with |- ND (match tget (threads ?x) TLink with _ => _ end) =>
    assert (Hx : ND x) by (apply (ND_ext s); auto);
    destruct (tget (threads x) TLink) as [[]|]; auto end.
  apply ND_setT; auto.
Qed.
Lemma ND_caller_panic calls s j e : ND s -> ND (caller_panic calls s j e).
Proof. intros H. unfold caller_panic. apply ND_begin_seterr. apply ND_with_closures; auto. Qed.
Lemma ND_caller_return s j v e : ND s -> ND (caller_return s j v e).
Proof. intros H. unfold caller_return. apply ND_with_ev. apply ND_setT. apply ND_with_closures; auto. Qed.
Lemma ND_handler_respond calls s n v e : ND s -> ND (handler_respond calls s n v e).
Proof.
  intros H. unfold handler_respond.
  destruct (take_fault s 2) as [[x|] s1] eqn:E1.
  - apply ND_begin_seterr. eapply ND_take_fault; eauto.
  - assert (H1 : ND s1) by (eapply ND_take_fault; eauto).
    destruct (memN 0%N (cancelled s1)); [apply ND_begin_seterr; auto|].
    destruct (take_fault s1 1) as [[x|] s2] eqn:E2.
    + apply ND_begin_seterr. eapply ND_take_fault; eauto.
    + apply ND_with_ev. apply ND_setT. eapply ND_take_fault; eauto.
Qed.

Ltac nd := repeat first
 [ assumption
 | match goal with
   | |- ND (with_ev _ _) => apply ND_with_ev
   | |- ND (with_flt _ _) => apply ND_with_flt
   | |- ND (with_closures _ _) => apply ND_with_closures
   | |- ND (wake _ _) => apply ND_wake
   | |- ND (do_free _ _) => apply ND_do_free
   | |- ND (do_close _) => apply ND_do_close
   | |- ND (do_store _ _ _) => apply ND_do_store
   | |- ND (loop_done _) => apply ND_loop_done
   | |- ND (handler_respond _ _ _ _ _) => apply ND_handler_respond
   | |- ND (caller_panic _ _ _ _) => apply ND_caller_panic
   | |- ND (caller_return _ _ _ _) => apply ND_caller_return
   | |- ND (begin_seterr _ _ _ _ _) => apply ND_begin_seterr
   | |- ND (loop_again _ _ _ _) => apply ND_loop_again
   | |- ND (setT _ _ _) => apply ND_setT
   | E : take_fault ?b _ = (_, ?c) |- ND ?c => apply (ND_take_fault _ _ _ _ E)
   end ].

Lemma ND_gen s s' t st : threads s' = tset (threads s) t st -> ND s -> ND s'.
Proof. unfold ND. intros -> H. apply NoDup_tset. exact H. Qed.

Lemma ND_env calls s a s' : ND s -> step_env fixed calls s a = Some s' -> ND s'.
Proof.
  intros HI H. unfold step_env in H. destruct a as [j|id x e| |n|f arg| |n|c|which n].
  - destruct (tget (threads s) (TCall j)) eqn:Ht; [discriminate|].
    destruct (nth_error calls j) as [cs|] eqn:Hn; [|discriminate].
    set (s0 := if c_closure cs then with_closures s (j :: closures s) else s) in *.
    assert (H0 : ND s0) by (unfold s0; destruct (c_closure cs); nd).
    destruct (take_fault s0 2) as [[x|] s1] eqn:E1; [inversion H; subst; nd|].
    assert (H1 : ND s1) by nd.
    destruct (bclosed s1) eqn:Eb; inversion H; subst; [nd|].
    eapply ND_gen with (t := TCall j) (st := CRegistered (length (ents s1))); [reflexivity|exact H1].
  - destruct (tget (threads s) TResLoop) as [[]|] eqn:Ht; try discriminate.
    destruct (take_fault s 3) as [[y|] s1] eqn:E1; inversion H; subst; [nd|].
    apply ND_loop_again. assert (H1 : ND s1) by nd.
    eapply ND_gen with (t := TPub (npub s1)) (st := PEnter id x e); [reflexivity|exact H1].
  - destruct (tget (threads s) TResLoop) as [[]|] eqn:Ht; try discriminate.
    destruct (take_fault s 3) as [[y|] s1] eqn:E1; inversion H; subst; nd.
  - destruct (tget (threads s) TResLoop) as [[]|] eqn:Ht; try discriminate. inversion H; subst. nd.
  - destruct (tget (threads s) TReqLoop) as [[]|] eqn:Ht; try discriminate.
    destruct (take_fault s 3) as [[y|] s1] eqn:E1; inversion H; subst; [nd|].
    apply ND_loop_again. assert (H1 : ND s1) by nd.
    eapply ND_gen with (t := TReq (nreq s1)) (st := QStart f arg); [reflexivity|exact H1].
  - destruct (tget (threads s) TReqLoop) as [[]|] eqn:Ht; try discriminate.
    destruct (take_fault s 3) as [[y|] s1] eqn:E1; inversion H; subst; nd.
  - destruct (tget (threads s) TReqLoop) as [[]|] eqn:Ht; try discriminate. inversion H; subst. nd.
  - destruct (memN c (cancelled s)); [discriminate|]. inversion H; subst.
    apply ND_wake. apply (ND_ext s); [reflexivity|exact HI].
  - inversion H; subst. nd.
Qed.

Lemma ND_caller calls s j st s' : ND s -> step_caller calls s j st = Some s' -> ND s'.
Proof.
  intros HI H. unfold step_caller in H. destruct st; try discriminate.
  - set (s0 := setT s (TWaiter j) (WStart ent)) in *.
    assert (H0 : ND s0) by (unfold s0; nd).
    destruct (memN 0%N (cancelled s0)); [inversion H; subst; nd|].
    destruct (take_fault s0 0) as [[x|] s1] eqn:E1; inversion H; subst; nd.
  - destruct o as [[x e|e]|].
    + destruct (Nat.eqb (c_nres (nth j calls dflt_call)) 1); [inversion H; subst; nd|].
      destruct (take_fault s 3) as [[y|] s1] eqn:E1; inversion H; subst; nd.
    + inversion H; subst; nd.
    + inversion H; subst; nd.
Qed.

Lemma ND_seterr s t e k s' : ND s -> step_seterr fixed s t e k = Some s' -> ND s'.
Proof.
  intros HI H. unfold step_seterr in H. destruct (tname_eqb t TLink); [discriminate|].
  destruct k as [|e'|]; [|destruct t|]; inversion H; subst; nd; apply ND_setT; auto; nd.
Qed.

Lemma ND_waiter calls s j st b s' : ND s -> step_waiter fixed calls s j st b = Some s' -> ND s'.
Proof.
  intros HI H. unfold step_waiter in H. destruct st; try discriminate.
  - match type of H with (match ?c with _ => _ end) = _ => destruct c eqn:Ec end.
    + unfold only0 in H. destruct b; inversion H; subst; nd.
    + match type of H with (match ?c with _ => _ end) = _ => destruct c as [[n| |]|] eqn:En end; try discriminate.
      * destruct (tget (threads s) (TPub n)) as [[]|]; try discriminate.
        match type of H with (if ?c then _ else _) = _ => destruct c end; [|discriminate].
        inversion H; subst; nd.
      * inversion H; subst; nd.
      * inversion H; subst; nd.
  - unfold only0 in H. destruct b; [|discriminate]. simpl in H.
    destruct (tget (threads s) (TCall j)) as [[]|]; inversion H; subst; nd.
  - unfold only0 in H. destruct b; inversion H; subst; nd.
Qed.

Lemma ND_pub s n st b s' : ND s -> step_pub s n st b = Some s' -> ND s'.
Proof.
  intros HI H. unfold step_pub in H. destruct st; try discriminate.
  - unfold only0 in H. destruct b; [|discriminate].
    destruct (bclosed s); [inversion H; subst; nd|].
    destruct (lookupN id (tbl s)); inversion H; subst; nd.
  - match type of H with (match ?c with _ => _ end) = _ => destruct c eqn:Ec end.
    + unfold only0 in H. destruct b; inversion H; subst; nd.
    + match type of H with (match ?c with _ => _ end) = _ => destruct c as [[j|]|] eqn:En end; try discriminate.
      * destruct (tget (threads s) (TWaiter j)) as [[]|] eqn:Ew; try discriminate.
        match type of H with (if ?c then _ else _) = _ => destruct c end; [|discriminate].
        inversion H; subst; nd.
      * inversion H; subst; nd.
  - unfold only0 in H. destruct b; inversion H; subst; nd.
  - unfold only0 in H. destruct b; inversion H; subst; nd.
Qed.

Lemma ND_callee calls s t n st s' : ND s -> step_callee calls s t n st = Some s' -> ND s'.
Proof.
  intros HI H. unfold step_callee in H. destruct t; try discriminate; destruct st; try discriminate.
  - destruct f; try (inversion H; subst; nd; fail);
      destruct (take_fault s 3) as [[y|] s1] eqn:E1; inversion H; subst; nd.
  - destruct f; try (inversion H; subst; nd; fail);
      try (destruct (handler_result _ arg) as [[x e]|]; inversion H; subst; nd).
  - inversion H; subst; nd.
Qed.

Lemma ND_infra calls s t st s' : ND s -> step_infra fixed calls s t st = Some s' -> ND s'.
Proof.
  intros HI H. unfold step_infra in H. destruct t; try discriminate; destruct st; try discriminate.
  - inversion H; subst; nd.
  - destruct (fatal s); inversion H; subst; nd.
  - inversion H; subst; nd.
  - inversion H; subst. nd; try (apply (ND_ext s); auto).
  - inversion H; subst. eapply ND_gen with (t := TSetup) (st := Finished); [reflexivity|exact HI].
Qed.

Lemma ND_step calls s c b s' : ND s -> lstep fixed calls s c b = Some s' -> ND s'.
Proof.
  intros HI H. unfold lstep in H. destruct (crashed s); [discriminate|].
  destruct c as [t|a].
  - destruct (tget (threads s) t) as [st|] eqn:Ht; [|discriminate].
    destruct st;
      try (unfold only0 in H; destruct b; [|discriminate]; eapply ND_seterr; eauto; fail);
      destruct t;
      try (simpl in H; unfold only0 in H; destruct b; simpl in H; discriminate);
      try (unfold only0 in H; destruct b; [|discriminate]);
      try (eapply ND_caller; eauto; fail);
      try (eapply ND_waiter; eauto; fail);
      try (eapply ND_pub; eauto; fail);
      try (eapply ND_callee; eauto; fail);
      try (eapply ND_infra; eauto; fail);
      try discriminate.
  - unfold only0 in H. destruct b; [|discriminate]. eapply ND_env; eauto.
Qed.

Lemma ND_run calls cs : forall s s', ND s -> lrun fixed calls s cs = Some s' -> ND s'.
Proof.
  induction cs as [|[c b] r IH]; intros s s' H Hr; simpl in Hr.
  - inversion Hr; subst; auto.
  - destruct (lstep fixed calls s c b) as [s1|] eqn:E; [|discriminate]. eapply IH; [|exact Hr]. eapply ND_step; eauto.
Qed.

Lemma ND_init : ND linit.
Proof. unfold ND. vm_compute. repeat constructor; simpl; intuition discriminate. Qed.

Lemma ND_reachable calls s : lreachable fixed calls s -> ND s.
Proof. intros (cs & H). eapply ND_run; [apply ND_init|exact H]. Qed.

(* what tget returns for a name that occurs in the table *)
Lemma tget_of_In l t st : NoDup (map fst l) -> In (t, st) l -> tget l t = Some st.
Proof.
  induction l as [|[t' st'] r IH]; simpl; intros Hn Hin; [contradiction|].
  inversion Hn as [|? ? Hni Hr]; subst.
  destruct Hin as [E|Hin].
  - inversion E; subst. rewrite tname_eqb_refl. reflexivity.
  - destruct (tname_eqb t t') eqn:E.
    + apply tname_eqb_eq in E; subst. exfalso. apply Hni. apply in_map_iff. exists (t', st). split; auto.
    + apply IH; auto.
Qed.

Lemma pubs_on_tget l ent n : NoDup (map fst l) -> In n (pubs_on ent l) -> exists x e, tget l (TPub n) = Some (PBlocked ent x e).
Proof.
  intros Hn Hin. unfold pubs_on in Hin. apply in_flat_map in Hin as ([t st] & Hp & Hm).
  destruct t; try contradiction. destruct st; try contradiction.
  destruct (Nat.eqb ent ent0) eqn:E; [|contradiction]. apply Nat.eqb_eq in E; subst ent0.
  destruct Hm as [<-|[]]. exists v, e. apply tget_of_In; auto.
Qed.
