(* Closure.v — the registry's closure table (manager.go:77-114) *)
From Verif Require Import Base.

Definition ctable := list (N * nat).          (* closure id -> which function (an index) *)

Definition register (t : ctable) (id : N) (fn : nat) : ctable := (id, fn) :: t.
Definition release (t : ctable) (id : N) : ctable := removeN id t.

Inductive cresult := CRan (fn : nat) | CDoesNotExist.
(* CallClosure: look the id up under the lock; run the function outside the lock *)
Definition call_closure (t : ctable) (id : N) : cresult :=
  match lookupN id t with Some fn => CRan fn | None => CDoesNotExist end.
