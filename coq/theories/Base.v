(* Base.v — shared small definitions: variants (repaired defects), list helpers.
   Plain standard library only; everything computes under vm_compute. *)
From Coq Require Export List NArith Bool Arith Lia.
Export ListNotations.

(* One flag per defect of the tree as found (DESIGN.md §8).  [fixed] is the claimed
   variant; [legacy] reproduces the tree before the "fix:" commits. *)
Record variant := {
  close_chan_on_free : bool;      (* D1 *)
  res_unbuffered : bool;          (* D2 *)
  decoder_send_unguarded : bool;  (* D3 *)
  overwrite_fatal : bool;         (* D4 *)
  no_link_hooks : bool;           (* D5 *)
  resolve_unchecked_nil : bool;   (* D6 *)
  convert_unchecked_nil : bool;   (* D7 *)
  report_closed : bool            (* D8: a call made on an already ended link reports ErrClosed as a fatal error *)
}.

Definition fixed : variant :=
  {| close_chan_on_free := false; res_unbuffered := false; decoder_send_unguarded := false;
     overwrite_fatal := false; no_link_hooks := false; resolve_unchecked_nil := false;
     convert_unchecked_nil := false; report_closed := false |}.

Definition legacy : variant :=
  {| close_chan_on_free := true; res_unbuffered := true; decoder_send_unguarded := true;
     overwrite_fatal := true; no_link_hooks := true; resolve_unchecked_nil := true;
     convert_unchecked_nil := true; report_closed := true |}.

(* ---- list helpers ---- *)

Fixpoint upd {A} (l : list A) (n : nat) (x : A) : list A :=
  match l, n with
  | [], _ => []
  | _ :: t, O => x :: t
  | h :: t, S n' => h :: upd t n' x
  end.

Lemma upd_length {A} (l : list A) n x : length (upd l n x) = length l.
Proof. revert n; induction l as [|h t IH]; intros [|n]; simpl; auto. Qed.

Lemma nth_error_upd_eq {A} (l : list A) n x :
  n < length l -> nth_error (upd l n x) n = Some x.
Proof.
  revert n; induction l as [|h t IH]; intros [|n] H; simpl in *; try lia; auto.
  apply IH; lia.
Qed.

Lemma nth_error_upd_neq {A} (l : list A) n m x :
  n <> m -> nth_error (upd l n x) m = nth_error l m.
Proof.
  revert n m; induction l as [|h t IH]; intros [|n] [|m] H; simpl; auto; try congruence.
Qed.

Lemma nth_error_upd {A} (l : list A) n m x y :
  nth_error (upd l n x) m = Some y ->
  (m = n /\ y = x /\ n < length l) \/ (m <> n /\ nth_error l m = Some y).
Proof.
  intros H. destruct (Nat.eq_dec m n) as [->|Hne].
  - left. destruct (Nat.lt_ge_cases n (length l)) as [Hl|Hl].
    + rewrite nth_error_upd_eq in H by auto. inversion H; auto.
    + assert (nth_error (upd l n x) n = None) by (apply nth_error_None; rewrite upd_length; lia).
      congruence.
  - right. split; auto. rewrite nth_error_upd_neq in H; auto.
Qed.

Fixpoint memN (x : N) (l : list N) : bool :=
  match l with [] => false | y :: t => N.eqb x y || memN x t end.

Lemma memN_In x l : memN x l = true <-> In x l.
Proof.
  induction l as [|y t IH]; simpl; [split; [discriminate|tauto]|].
  rewrite orb_true_iff, N.eqb_eq, IH. split; intros [H|H]; auto.
Qed.

Fixpoint lookupN {A} (k : N) (l : list (N * A)) : option A :=
  match l with
  | [] => None
  | (k', a) :: t => if N.eqb k k' then Some a else lookupN k t
  end.

Fixpoint removeN {A} (k : N) (l : list (N * A)) : list (N * A) :=
  match l with
  | [] => []
  | (k', a) :: t => if N.eqb k k' then removeN k t else (k', a) :: removeN k t
  end.

Lemma lookupN_removeN_same {A} k (l : list (N * A)) : lookupN k (removeN k l) = None.
Proof.
  induction l as [|[k' a] t IH]; simpl; auto.
  destruct (N.eqb k k') eqn:E; simpl; auto. rewrite E; auto.
Qed.

Lemma lookupN_removeN_other {A} k k' (l : list (N * A)) :
  k <> k' -> lookupN k' (removeN k l) = lookupN k' l.
Proof.
  intros Hne. induction l as [|[k2 a] t IH]; simpl; auto.
  destruct (N.eqb k k2) eqn:E.
  - apply N.eqb_eq in E; subst. destruct (N.eqb k' k2) eqn:E2; auto.
    apply N.eqb_eq in E2; congruence.
  - simpl. rewrite IH; auto.
Qed.

Lemma lookupN_In {A} k (l : list (N * A)) a : lookupN k l = Some a -> In (k, a) l.
Proof.
  induction l as [|[k' a'] t IH]; simpl; [discriminate|].
  destruct (N.eqb k k') eqn:E; intros H.
  - apply N.eqb_eq in E; subst. inversion H; auto.
  - auto.
Qed.

Lemma In_removeN {A} k k' (a : A) l : In (k', a) (removeN k l) -> In (k', a) l /\ k' <> k.
Proof.
  induction l as [|[k2 a2] t IH]; simpl; [tauto|].
  destruct (N.eqb k k2) eqn:E.
  - intros H. destruct (IH H); auto.
  - simpl. intros [H|H].
    + inversion H; subst. split; auto. intros ->. rewrite N.eqb_refl in E; discriminate.
    + destruct (IH H); auto.
Qed.
