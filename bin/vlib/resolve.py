"""C07 / C06(1): path resolution — implementation vs Resolve.v vs the hand-written zoo oracle."""
import collections, json, os, re
from . import common as C


def cstr(s):
    return '"' + s.replace('"', '""') + '"'


def lst(xs):
    return "[" + "; ".join(xs) + "]"


def tinfo_coq(t):
    kind = {"struct": "KStruct", "ptr": "KPtr", "iface": "KIface", "other": "KOther"}[t["kind"]]
    fields = lst("(%s, %s)" % (cstr(f["name"]), "true" if f["exported"] else "false") for f in t.get("fields") or [])
    byname = lst("(%s, %s)" % (cstr(n), lst(str(i) for i in idx)) for n, idx in sorted((t.get("byname") or {}).items()))
    vm = lst(cstr(n) for n in t.get("vm") or [])
    pm = lst("mkMeth %s %d %s %s" % (cstr(n), m["nin"], "None" if m["via"] < 0 else "(Some %d)" % m["via"], "true" if m["ptrrecv"] else "false")
             for n, m in sorted((t.get("pm") or {}).items()))
    im = lst("(%s, %d)" % (cstr(n), k) for n, k in sorted((t.get("im") or {}).items()))
    return "mkT %s %s %d %s %s %s %s %s" % (cstr(t.get("short", "")), kind, t.get("elem", 0), fields, byname, vm, pm, im)


def value_coq(v, types):
    k = v["kind"]
    if k == "invalid":
        return "VInvalid"
    if k == "struct":
        return "(VStruct %d %s %s)" % (v["type"], cstr(v.get("inst", "")), lst(value_coq(f, types) for f in v.get("fields") or []))
    if k == "ptr":
        ety = types[v["type"]]["elem"]
        return "(VPtr %d %s)" % (ety, "None" if v.get("nil") else "(Some %s)" % value_coq(v["elem"], types))
    if k == "iface":
        return "(VIface %d %s)" % (v["type"], "None" if v.get("nil") else "(Some %s)" % value_coq(v["elem"], types))
    return "(VOther %d %s)" % (v["type"], cstr(v.get("inst", "")))


def impl_class(o):
    if o.startswith("invoked:"):
        return o
    if o in ("nofunc", "argc", "closure"):
        return o
    if o in ("ro", "nilderef") or o.startswith("other:panicked with no error value") or "nil pointer" in o:
        return "panic"
    return o


def outcome_coq(cls):
    if cls.startswith("invoked:"):
        inst, meth = cls[len("invoked:"):].rsplit(".", 1)
        return "OInvoked %s %s" % (cstr(inst), cstr(meth))
    return {"nofunc": "ONoFunc", "argc": "OArgCount", "panic": "OPanicInCall", "closure": "OClosureEntry"}.get(cls)


def check(res, tier, seed):
    pid = res.pid
    wd = C.workdir(pid)
    C.proof_obligations(res, pid, wd)
    binary = C.build_harness(wd)
    n = 150 if tier == "quick" else 1200
    recs, rc, out = C.run_job(binary, wd, "resolve", dict(family="resolve", seed=seed, n=n), timeout=900)
    monitor_hits = 0
    if rc != 0:
        monitor_hits += 1
        res.violation("resolve-crash", "the process died while resolving a peer-supplied function name: %s" % (out.strip().splitlines() or ["?"])[-1][:300],
                      dict(kind="resolve", last=recs[-1] if recs else None, output=out[-3000:]))
    roots = {}
    cases = collections.defaultdict(list)
    for r in [x for x in recs if x.get("mut")]:
        # the object graph changes between requests on one link: the sub-object held NOW answers
        if r["outcome"] != r["expect"]:
            monitor_hits += 1
            if r["expect"] == "NO-APPLICATION-CODE":
                res.violation("resolve-no-function", "%s: the frame %s ran application code %s (answer: %s): a request runs application code only if ITS function name is a path to an exported method" % (
                    r["step"], r["fn"], r.get("hits"), r["outcome"][:200]), dict(kind="resolve-mutating-graph", case=r))
            else:
                res.violation("resolve-mutating-graph", "%s: request %r was answered with %s (application code that ran: %s), expected %s - the method of the sub-object that is held now" % (
                    r["step"], r["fn"], r["outcome"], r.get("hits"), r["expect"]), dict(kind="resolve-mutating-graph", case=r))
    recs = [x for x in recs if not x.get("mut")]
    for r in recs:
        if "desc" in r:
            roots[r["root"]] = r
        else:
            cases[r["root"]].append(r)
    dist = collections.Counter()
    total = 0
    ncoq = 0
    mism_total = 0
    ran_distinct = set()
    regen_total = regen_ok = 0
    for root, cs in cases.items():
        d = roots[root]["desc"]
        types = d["types"] or []
        # 1. implementation vs the hand-written oracle (written from the Go language rules)
        for c in cs:
            total += 1
            cls = impl_class(c["outcome"])
            dist[cls.split(":")[0]] += 1
            ran = cls.startswith("invoked:")
            if ran:
                ran_distinct.add((root, c["fn"]))
            if c["outcome"] == "hang":
                monitor_hits += 1
                res.violation("resolve-hang", "request %r (argc %d) against %s neither answered nor ended the link" % (c["fn"], c["argc"], root),
                              dict(kind="resolve", case=c))
            elif c["expect"] == "none" and (ran or c.get("hits")):
                monitor_hits += 1
                res.violation("resolve-ran-unexposed", "request %r (argc %d) against %s ran application code %s although the name is not an exported-field path to an exported method with that arity" % (c["fn"], c["argc"], root, c.get("hits")),
                              dict(kind="resolve", case=c))
            elif c["expect"] != "none" and cls != c["expect"]:
                monitor_hits += 1
                res.violation("resolve-wrong-target", "request %r (argc %d) against %s should run %s but the outcome was %s" % (c["fn"], c["argc"], root, c["expect"], c["outcome"]),
                              dict(kind="resolve", case=c))
        # 2. implementation vs Resolve.v (kernel evaluation)
        terms, idx = [], []
        for i, c in enumerate(cs):
            o = outcome_coq(impl_class(c["outcome"]))
            if o is None:
                continue
            terms.append("(%s, %d, %s)" % (cstr(c["fn"]), c["argc"], o))
            idx.append(i)
        body = ("From Coq Require Import String.\nFrom Verif Require Import Base Resolve ResolveCheck.\nOpen Scope string_scope.\n"
                "Definition tys : list tinfo := %s.\nDefinition root : value := %s.\n"
                "Definition cases : list (string * nat * outcome) := %s.\n"
                "Definition M := Eval vm_compute in rmismatches fixed tys root cases.\nPrint M.\n"
                "Definition W := Eval vm_compute in (wf_tys tys, invoke_total tys root).\nPrint W.\n"
                % (lst(tinfo_coq(t) for t in types).replace("; mkT", ";\n mkT"), value_coq(d["root"], types), lst(terms).replace("); (", ");\n (")))
        ok, o = C.coq_eval(wd, "cases_" + re.sub(r"\W", "_", root), body)
        if not ok:
            raise C.CheckError("coqc failed on resolve cases for %s: %s" % (root, o[-1500:]))
        m = re.search(r"M\s*=\s*(\[.*?\])\s*:", o, re.S)
        if not m:
            raise C.CheckError("cannot parse coqc output: " + o[-800:])
        bad = [int(x) for x in re.findall(r"\d+", m.group(1))]
        mw = re.search(r"W\s*=\s*\((true|false),\s*(true|false)\)", o)
        regen_total += 2
        if mw and mw.group(1) == "true":
            regen_ok += 1
        else:
            res.violation("resolve-wf", "regenerated obligation wf_tys fails on the type facts read from Go for %s (a method table lists an unexported name or an exported flag disagrees with its name): theorem only_exported_names_run no longer applies" % root,
                          dict(kind="resolve", obligation="wf_tys tys = true", root=root), no_failing_input=(monitor_hits == 0))
        if mw and mw.group(2) == "true":
            regen_ok += 1
        else:
            res.violation("resolve-invoke-total", "regenerated obligation invoke_total fails for %s: theorem peer_names_never_crash no longer excludes a crash" % root,
                          dict(kind="resolve", obligation="invoke_total tys root = true", root=root), no_failing_input=(monitor_hits == 0))
        ncoq += len(terms)
        mism_total += len(bad)
        for b in bad[:3]:
            c = cs[idx[b]]
            res.violation("resolve-correspondence", "Resolve.v (fixed) predicts a different outcome than the implementation for %r (argc %d) against %s: the correspondence Resolve.resolve <-> findMethodByFunctionCallPathRecursively no longer checks" % (c["fn"], c["argc"], root),
                          dict(kind="resolve", correspondence="ResolveCheck.rmismatches fixed", case=c, theorems=res.coverage.get("theorems")),
                          no_failing_input=(monitor_hits == 0))
    if pid == "C06":
        # arbitrary frames from a raw peer on one link of a hub; a sibling link is probed in between
        nrec = 8 if tier == "quick" else 150
        frecs, frc, fout = C.run_job(binary, wd, "peerfuzz", dict(family="peerfuzz", seed=seed, n=nrec, params=dict(percase=60)), timeout=600)
        nfuzz = 0
        fdist = collections.Counter()
        if frc != 0:
            monitor_hits += 1
            line = next((l for l in fout.splitlines() if l.startswith("panic:") or "fatal error" in l), (fout.strip().splitlines() or ["?"])[-1])
            last = frecs[-1]["cases"][-1] if frecs and frecs[-1].get("cases") else None
            res.violation("peerfuzz-crash", "the process died while a raw peer was sending frames: %s" % line[:300], dict(kind="peerfuzz", output=fout[-3000:], last_completed=last))
        for fr in frecs:
            since_probe = []
            for fc in fr.get("cases") or []:
                since_probe.append(fc["frames"])
                if fc["sibling"] != "ok":
                    fc["frames_since_last_good_probe"] = since_probe[-4:]
                nfuzz += 1
                fdist[("stream " if fc["stream"] else "message ") + fc["outcome"].split(":")[0]] += 1
                if fc["outcome"] == "stalled":
                    monitor_hits += 1
                    res.violation("peerfuzz-stalled", "after the well-formed frames %s from a raw peer the link neither answers a further valid request nor ends: it has silently stopped processing" % [f[:80] for f in fc["frames"]],
                                  dict(kind="peerfuzz", seed=fr["seed"], case=fc))
                if fc["outcome"] == "hang":
                    monitor_hits += 1
                    res.violation("peerfuzz-hang", "after frames %s from a raw peer the link's Link call does not return although its context is cancelled and the transport closed" % fc["frames"],
                                  dict(kind="peerfuzz", seed=fr["seed"], case=fc))
                if fc["sibling"] != "ok":
                    monitor_hits += 1
                    res.violation("peerfuzz-sibling", "after frames %s from a raw peer on one link, %s" % ([f[:80] for f in fc["frames"]], fc["sibling"]),
                                  dict(kind="peerfuzz", seed=fr["seed"], case=fc))
            for n in fr.get("notes") or []:
                monitor_hits += 1
                res.violation("peerfuzz-note", n, dict(kind="peerfuzz", seed=fr["seed"]))
        total += nfuzz
        dist.update(fdist)
        # a raw peer floods one link with invocations of unknown closure ids while closure-carrying calls are made
        # on a healthy link of the same registry (real scheduler)
        srecs, src, sout = C.run_job(binary, wd, "closurestress", dict(family="sys", seed=seed, n=1, cases=["closurestress"],
                                     params=dict(workers=32, perworker=(600 if tier == "quick" else 8000))), timeout=600)
        if src != 0 or not srecs:
            monitor_hits += 1
            line = next((l for l in sout.splitlines() if l.startswith("panic:") or "fatal error" in l), (sout.strip().splitlines() or ["?"])[-1])
            res.violation("closurestress-crash", "the process died while a raw peer flooded one link with invocations of unknown closure ids and closure-carrying calls were made on another link of the registry: %s" % line[:300],
                          dict(kind="sys", family="closurestress", output=sout[-3000:]))
        for r in srecs:
            vs = list(r.get("notes") or []) + (["the closure stress did not finish (calls on the healthy link are stuck)"] if r.get("hang") else [])
            if vs:
                monitor_hits += 1
                res.violation("closurestress", "implementation violates C06: %s" % vs[0], dict(kind="sys", family="closurestress", seed=r["seed"], all=vs[:6]))
        total += len(srecs)
        dist["closurestress"] += len(srecs)
        # what the peer ANSWERS is peer input too: responses that cannot be decoded into the declared result type,
        # reads that fail with every kind of error, frames for functions without results (black-box family linkend)
        lrecs, lrc, lout = C.run_job(binary, wd, "linkend", dict(family="sys", seed=seed, n=(18 if tier == "quick" else 180), cases=["linkend"]), timeout=600)
        if lrc != 0:
            monitor_hits += 1
            line = next((l for l in lout.splitlines() if l.startswith("panic:") or "fatal error" in l), (lout.strip().splitlines() or ["?"])[-1])
            res.violation("linkend-crash", "the process died in a scenario in which the peer's answer cannot be used (last completed: %s): %s" % (lrecs[-1]["config"] if lrecs else "none", line[:300]),
                          dict(kind="sys", family="linkend", output=lout[-3000:]))
        total += len(lrecs)
        dist["linkend"] += len(lrecs)
        # what a peer makes panrpc run must not be able to wedge the registry for everybody else: the critical sections
        # of the table locks are closed pieces of code (regenerated from the sources, go/ast; Regions.v)
        from . import regions
        regions.obligation(res, wd, monitor_hits)
    if pid == "C07":
        # "... with the calling link's identity in its context": hubs with several links, relinking after a failure
        from . import sys_props
        hrecs, hrc, hout = C.run_job(binary, wd, "hubid", dict(family="sys", seed=seed, n=(12 if tier == "quick" else 200), cases=["hub", "nestedlink"]), timeout=600)
        for r in hrecs:
            vs = sys_props.mon_nestedlink(r) if r["family"] == "nestedlink" else [v for v in sys_props.mon_c13(r) if "identity" in v or " id " in v or "remote id" in v]
            if vs:
                monitor_hits += 1
                res.violation("link-identity", "implementation violates C07 (the identity a handler reads from its context is not the calling link's): %s" % vs[0],
                              dict(kind="sys", family=r["family"], config=r["config"], seed=r["seed"], all=vs[:6]))
        total += len(hrecs)
    if getattr(res, "proof_broken", None):
        why, log = res.proof_broken
        res.violation("proof-broken", "proof obligations of %s no longer check: %s" % (pid, why),
                      dict(theorem_file="coq/theories/Props/%s.v" % pid, log=log), no_failing_input=(monitor_hits == 0))
    res.coverage["obligations"] = res.coverage.get("obligations", 0) + regen_total
    if res.coverage.get("discharged"):
        res.coverage["discharged"] = res.coverage["discharged"] + regen_ok
    res.coverage["regenerated_obligations"] = "wf_tys and invoke_total evaluated by vm_compute on the reflect facts of each of %d zoo roots" % len(cases)
    res.coverage.update(
        evaluations=total, distinct_nontrivial=len(ran_distinct) + sum(1 for k in dist if k != "nofunc"),
        rule="each case = (zoo root object, function-name string, argument count) sent by a raw peer to a registry exposing the root; names = every "
             "hand-listed callable path, every field path x every method name of the zoo, plus seeded mutations (case flips, dropped/added components, "
             "empty components, the closure entry point); argc = exact, +1, -1 or random; distinct non-trivial = distinct (root, path) that ran application code + number of distinct non-'no function' outcome classes",
        samples=[cs[0] for cs in cases.values() if cs][:3] + [c for cs in cases.values() for c in cs if c["outcome"].startswith("invoked:")][:2],
        traces_validated_against_impl=ncoq, distribution=dict(dist), roots=sorted(cases), exhaustive=False,
        monitor_hits=monitor_hits, correspondence_mismatches=mism_total)
    res.assumptions += ["type facts (field tables, method sets, promotion) are read from Go's reflect on every run and are inputs of the model",
                        "the hand-written list of callable paths per zoo object is the independent oracle for 'only exposed methods run'"]
