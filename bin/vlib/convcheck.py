"""C11: direct correspondence of convertValue with Convert.v (kernel evaluation)."""
import json, os, re
from . import common as C


def check(res, wd, recs_unused, hits):
    binary = os.path.join(wd, "harness.test")
    n = 800 if res.tier == "quick" else 8000
    recs, rc, out = C.run_job(binary, wd, "convert", dict(family="convert", seed=res.seed, n=n))
    if rc != 0:
        res.violation("convert-crash", "convertValue harness died: %s" % out[-400:], dict(output=out[-2000:]))
        return 0
    terms = []
    for r in recs:
        o = r["out"]
        ot = "CErr" if o == "err" else ("CPanic" if o.startswith("panic") else "COk " + o[3:])
        terms.append("(%s, %s, %s)" % (r["src"], r["ty"], ot))
    total = 0
    for s0 in range(0, len(terms), 1000):
        body = ("From Coq Require Import ZArith.\nFrom Verif Require Import Base Convert.\n"
                "Definition cases : list (gval * gty * cres) := [\n" + ";\n".join(terms[s0:s0 + 1000]) + "].\n"
                "Definition M := Eval vm_compute in cmismatches fixed cases.\nPrint M.\n")
        ok, o = C.coq_eval(wd, "convcases_%d" % (s0 // 1000), body)
        if not ok:
            raise C.CheckError("coqc failed on convert cases: " + o[-1500:])
        m = re.search(r"M\s*=\s*(\[.*?\])\s*:", o, re.S)
        bad = [int(x) for x in re.findall(r"\d+", m.group(1))] if m else [0]
        total += len(terms[s0:s0 + 1000])
        for b in bad[:3]:
            r = recs[s0 + b]
            concrete = r["out"].startswith("panic")
            res.violation("convert-correspondence" + (":panic" if concrete else ""),
                          ("convertValue panics on a generically decoded closure argument %s -> %s: %s" % (r["src"], r["ty"], r["out"])) if concrete else
                          ("Convert.v (fixed) predicts a different result than convertValue for %s -> %s (observed %s): correspondence Convert.convert_value <-> convertValue no longer checks" % (r["src"], r["ty"], r["out"])),
                          dict(kind="convert", case=r, correspondence="Convert.cmismatches fixed"), no_failing_input=(not concrete and hits == 0))
    res.coverage["convert_cases"] = total
    return total
