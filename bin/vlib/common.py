"""Shared machinery for /verif/bin/check: builds, harness jobs, Coq evaluation, evidence."""
import fcntl, hashlib, json, os, re, shutil, subprocess, sys, time

VERIF = os.path.dirname(os.path.dirname(os.path.dirname(os.path.abspath(__file__))))
REPO = os.environ.get("VERIF_REPO", "/repo")
COQ = os.path.join(VERIF, "coq")
HARNESS = os.environ.get("VERIF_HARNESS", os.path.join(VERIF, "harness"))  # override: development only
WORK = os.environ.get("VERIF_WORK", os.path.join(VERIF, "work"))
EVIDENCE_DIR = os.environ.get("VERIF_EVIDENCE_DIR", os.path.join(VERIF, "evidence"))

GOENV = dict(os.environ, GOFLAGS="-mod=mod", GOPROXY="off", GOSUMDB="off", GOTOOLCHAIN="local",
             CGO_ENABLED=os.environ.get("CGO_ENABLED", "0"))

FORBIDDEN = re.compile(r"\b(Admitted|admit|Axiom|Parameter|Conjecture|Unset Guard|bypass_check|Admit Obligations)\b")


class CheckError(Exception):
    pass


def sh(cmd, cwd=None, env=None, timeout=None, check=False, stdin=None):
    p = subprocess.run(cmd, cwd=cwd, env=env, timeout=timeout, shell=isinstance(cmd, str),
                       stdout=subprocess.PIPE, stderr=subprocess.STDOUT, text=True, input=stdin)
    if check and p.returncode != 0:
        raise CheckError("command failed (%s): %s\n%s" % (p.returncode, cmd, p.stdout[-4000:]))
    return p.returncode, p.stdout


def workdir(pid):
    d = os.path.join(WORK, pid)
    os.makedirs(d, exist_ok=True)
    return d


class Lock:
    def __init__(self, name):
        os.makedirs(WORK, exist_ok=True)
        self.path = os.path.join(WORK, name + ".lock")

    def __enter__(self):
        self.f = open(self.path, "w")
        fcntl.flock(self.f, fcntl.LOCK_EX)
        return self

    def __exit__(self, *a):
        fcntl.flock(self.f, fcntl.LOCK_UN)
        self.f.close()


# ---------------------------------------------------------------- Coq

def coq_build():
    """Full .vo build of the development (no-op when up to date). Returns (ok, log)."""
    with Lock("coq"):
        mk, prj = os.path.join(COQ, "Makefile"), os.path.join(COQ, "_CoqProject")
        if not os.path.exists(mk) or os.path.getmtime(mk) < os.path.getmtime(prj):
            sh("coq_makefile -f _CoqProject -o Makefile", cwd=COQ, check=True)
        rc, out = sh("timeout 3000 make -j16", cwd=COQ)
        return rc == 0, out


def coq_sources():
    res = []
    for root, _, files in os.walk(os.path.join(COQ, "theories")):
        for f in files:
            if f.endswith(".v"):
                res.append(os.path.join(root, f))
    return sorted(res)


def forbidden_scan():
    """Names of files containing Admitted/admit/Axiom/... (comments stripped)."""
    bad = []
    for f in coq_sources():
        src = open(f).read()
        src = strip_comments(src)
        m = FORBIDDEN.search(src)
        if m:
            bad.append("%s: %s" % (os.path.relpath(f, VERIF), m.group(0)))
    return bad


def strip_comments(src):
    out, depth, i = [], 0, 0
    while i < len(src):
        if src.startswith("(*", i):
            depth += 1
            i += 2
        elif src.startswith("*)", i) and depth > 0:
            depth -= 1
            i += 2
        else:
            if depth == 0:
                out.append(src[i])
            i += 1
    return "".join(out)


def check_props(pid, wd, extra_args=()):
    """Compile theories/Props/<pid>.v on its own (into wd) and collect theorem names and the
    Print Assumptions output. Returns dict(ok, theorems, assumptions, log)."""
    src = os.path.join(COQ, "theories", "Props", pid + ".v")
    if not os.path.exists(src):
        return dict(ok=False, theorems=[], assumptions=[], log="missing " + src)
    text = strip_comments(open(src).read())
    theorems = re.findall(r"\bTheorem\s+([A-Za-z0-9_']+)", text)
    out_vo = os.path.join(wd, pid + ".vo")
    rc, out = sh(["timeout", "600", "coqc", "-Q", os.path.join(COQ, "theories"), "Verif"] + list(extra_args) +
                 ["-o", out_vo, src], cwd=wd)
    assumptions = []
    # Print Assumptions output: "Closed under the global context" or "Axioms:\n ..."
    blocks = re.split(r"(?=Closed under the global context|Axioms:)", out)
    for b in blocks[1:]:
        assumptions.append(b.strip().split("\n\n")[0])
    return dict(ok=(rc == 0), theorems=theorems, assumptions=assumptions, log=out)


def coq_eval(wd, name, body, timeout=1800):
    """Write <name>.v with body, compile it, return (ok, output)."""
    path = os.path.join(wd, name + ".v")
    with open(path, "w") as f:
        f.write(body)
    rc, out = sh(["timeout", str(timeout), "coqc", "-Q", os.path.join(COQ, "theories"), "Verif", path], cwd=wd)
    return rc == 0, out


# ---------------------------------------------------------------- Go harness

def build_harness(wd, race=False):
    """Rebuild the harness test binary against /repo's working tree (tag verif)."""
    src = HARNESS
    if REPO != "/repo":
        # scratch copy of the harness module whose replace directive points at the scratch repository
        src = os.path.join(wd, "harness_src")
        shutil.rmtree(src, ignore_errors=True)
        shutil.copytree(HARNESS, src)
        gm = open(os.path.join(src, "go.mod")).read().replace("=> /repo/go", "=> %s/go" % REPO)
        open(os.path.join(src, "go.mod"), "w").write(gm)
    shutil.copy(os.path.join(REPO, "go", "go.sum"), os.path.join(src, "go.sum"))
    out_bin = os.path.join(wd, "harness.race.test" if race else "harness.test")
    env = dict(GOENV)
    cmd = ["go1.26", "test", "-c", "-tags", "verif", "-o", out_bin, "."]
    if race:
        env["CGO_ENABLED"] = "1"
        cmd = ["go1.26", "test", "-c", "-race", "-tags", "verif", "-o", out_bin, "."]
    with Lock("gobuild"):
        rc, out = sh(cmd, cwd=src, env=env, timeout=900)
    if rc != 0:
        raise CheckError("harness/repo build failed:\n" + out[-6000:])
    return out_bin


def run_job(binary, wd, name, job, timeout=1200, env_extra=None):
    """Run one harness job in a child process. Returns (records, rc, output)."""
    jf = os.path.join(wd, name + ".job.json")
    of = os.path.join(wd, name + ".out.jsonl")
    with open(jf, "w") as f:
        json.dump(job, f)
    if os.path.exists(of):
        os.remove(of)
    env = dict(GOENV, VERIF_JOB=jf, VERIF_OUT=of)
    if env_extra:
        env.update(env_extra)
    try:
        rc, out = sh([binary, "-test.run", "^TestHarness$", "-test.timeout", "%ds" % timeout], cwd=wd, env=env,
                     timeout=timeout + 60)
    except subprocess.TimeoutExpired as e:
        rc, out = 124, "harness timed out: " + str(e)
    recs = []
    if os.path.exists(of):
        for line in open(of):
            line = line.strip()
            if line:
                try:
                    recs.append(json.loads(line))
                except Exception:
                    pass
    return recs, rc, out


# ---------------------------------------------------------------- known findings

def known_findings():
    path = os.path.join(VERIF, "known_findings.txt")
    res = []
    if os.path.exists(path):
        for line in open(path):
            line = line.strip()
            if line.startswith("finding:"):
                m = re.match(r"finding:\s+property=(\S+)\s+(\S+)\s+(.*)", line)
                if m:
                    res.append(dict(property=m.group(1), fingerprint=m.group(2), what=m.group(3)))
    return res


# ---------------------------------------------------------------- result / evidence

class Result:
    def __init__(self, pid, tier, seed):
        self.pid, self.tier, self.seed = pid, tier, seed
        self.t0 = time.time()
        self.violations = []      # (fingerprint, what, replay dict, no_failing_input)
        self.coverage = dict(evaluations=0, distinct_nontrivial=0, rule="", samples=[],
                             traces_validated_against_impl=0)
        self.assumptions = []
        self.notes = []

    def violation(self, fingerprint, what, replay, no_failing_input=False):
        self.violations.append((fingerprint, what, replay, no_failing_input))

    def finish(self):
        wd = workdir(self.pid)
        known = [k for k in known_findings() if k["property"] == self.pid]
        rc = 0
        nviol = 0
        # concrete failing inputs are reported before obligations that merely no longer check
        ordered = sorted(self.violations, key=lambda v: bool(v[3]))
        for i, (fp, what, replay, nofail) in enumerate(ordered):
            if any(k["fingerprint"] == fp for k in known):
                print("KNOWN-FINDING: property=%s %s %s" % (self.pid, fp, what))
                continue
            nviol += 1
            path = os.path.join(wd, "replay-%d.json" % i)
            with open(path, "w") as f:
                json.dump(dict(property=self.pid, fingerprint=fp, what=what, replay=replay), f, indent=1, default=str)
            if nviol <= 5:
                print("VIOLATION property=%s replay=%s%s" % (self.pid, path, " no-failing-input-found" if nofail else ""))
                print("  " + what[:600])
            rc = 1
        ev = dict(property_id=self.pid, tier=self.tier, seed=self.seed, level="proof",
                  coverage=self.coverage, assumptions=self.assumptions,
                  wall_s=round(time.time() - self.t0, 2), violations=nviol)
        os.makedirs(EVIDENCE_DIR, exist_ok=True)
        with open(os.path.join(EVIDENCE_DIR, self.pid + ".json"), "w") as f:
            json.dump(ev, f, indent=1, default=str)
        if rc == 0:
            print("OK property=%s tier=%s obligations=%s/%s evaluations=%s wall=%.1fs" % (
                self.pid, self.tier, self.coverage.get("discharged"), self.coverage.get("obligations"),
                self.coverage.get("evaluations"), time.time() - self.t0))
        return rc


TRUSTED_BASE_COMMON = [
    "Coq 8.16.1 kernel incl. vm_compute (no native_compute); coqchk re-check in the thorough tier",
    "hand-written Gallina model (coq/theories): modelled, not verified; tied to /repo by the correspondence check of this run",
    "correspondence harness (Go 1.26.8 testing/synctest quiescence, verifhook yield points, generators): differential testing only",
    "no Axiom/Parameter/Admitted in the development (scanned on every run); Print Assumptions output recorded below",
]


def proof_obligations(res, pid, wd, extra_args=(), regenerated=0):
    """Build the development, compile Props/<pid>.v, fill the proof-level coverage keys.
    A failure is recorded as a violation without a failing input (caller searches for one)."""
    ok, log = coq_build()
    bad = forbidden_scan()
    pr = check_props(pid, wd, extra_args) if ok else dict(ok=False, theorems=[], assumptions=[], log=log)
    nthm = len(pr["theorems"]) + regenerated
    closed = [a for a in pr["assumptions"] if a.startswith("Closed under the global context")]
    discharged = nthm if (ok and pr["ok"] and not bad and len(closed) == len(pr["assumptions"])
                          and len(pr["assumptions"]) >= len(pr["theorems"])) else 0
    res.coverage.update(obligations=max(nthm, 1), discharged=discharged,
                        checker_cmd="make -C coq (coq_makefile, full .vo) && coqc -Q coq/theories Verif coq/theories/Props/%s.v" % pid,
                        trusted_base=TRUSTED_BASE_COMMON + ["Print Assumptions: " + "; ".join(sorted(set(pr["assumptions"]))) if pr["assumptions"] else "Print Assumptions: (none captured)"],
                        theorems=pr["theorems"])
    if discharged == 0:
        why = "forbidden construct: %s" % bad if bad else ("Coq build failed" if not ok else
              ("Props/%s.v does not compile" % pid if not pr["ok"] else "axioms or missing Print Assumptions: %s" % pr["assumptions"]))
        res.proof_broken = (why, (pr["log"] or log)[-3000:])
    else:
        res.proof_broken = None
    return pr
