"""Black-box (two or more real registries) checks: C01 C02 C08 C09 C10 C11 C13 C17.
Each check = Coq proof obligations (Props/<id>.v) + implementation-side monitors on generated
workloads + (where a model prediction exists) kernel-evaluated comparison with the model."""
import collections, json, os, re
from . import common as C

FAMILIES = {"C14": ["hub", "errors"], "C01": ["conc", "closures", "framing"], "C02": ["nest", "closures", "framing"], "C09": ["values", "conc", "closures"], "C10": ["errors", "hub"], "C11": ["closures", "hub", "framing"],
            "C13": ["hub", "relay", "nestedlink"], "C17": ["wire"]}


def cb_fail_text(tag, i):
    return {1: "cbfail%d\n", 2: "  cbfail%d", 3: "\tcb fail\n\t%d \n"}.get(tag % 4, "cbfail%d") % i


def expected_iter(n, fail_at, tag=0):
    cnt = abs(n)
    parts = []
    for i in range(cnt):
        parts.append("r%d/%s" % (i, cb_fail_text(tag, i) if i == fail_at else ""))
    return ";".join(parts)


def iter_slice(i):
    return [None, [], [0], [i, -i, 0]][i % 4]


def expected_runs(n):
    cnt = abs(n)
    runs = []
    for i in range(cnt):
        xs = iter_slice(i)
        # a nil slice arrives as an empty-or-nil slice of ints: canonical JSON of []int(nil) is null
        runs.append(json.dumps([i, "s%d" % i, xs, i % 2 == 0], separators=(",", ":")))
    return sorted(runs)


def invs_by_tag(rec):
    d = collections.defaultdict(list)
    for e in rec.get("events") or []:
        if e["kind"] == "inv":
            d[e["tag"]].append(e)
    return d


def other(node):
    return {"A": "B", "B": "A"}.get(node, node)


def mon_c01(rec):
    out = []
    if rec.get("hang"):
        out.append("calls did not complete (hang) with %d concurrent calls" % len(rec["calls"] or []))
    for n in rec.get("notes") or []:
        out.append(n)
    invs = invs_by_tag(rec)
    for c in rec["calls"] or []:
        if not c["done"]:
            out.append("call tag %d never returned" % c["tag"])
            continue
        got = invs.get(c["tag"], [])
        if c["m"] == "EchoIntCancelled":
            if c["err"] != "context canceled" or c["ret"] != "0" or len(got) > 1:
                out.append("call tag %d made with an already cancelled context returned (%s, %r) and caused %d invocations, expected (0, 'context canceled') and at most one" % (c["tag"], c["ret"], c["err"], len(got)))
            continue
        if c["m"] == "NamedLikeInternal":
            if c["ret"] != c["arg"]:
                out.append("the peer exposes a function at path %r (a name panrpc also uses internally): calling it ran %s on the peer, expected exactly one invocation of the peer's own function of that name" % (c["arg"], c["ret"] or "nothing"))
            continue
        if c["m"] == "CallWithHandlerContextAfterReturn":
            if (c["ret"], c["err"]) != ("7", "") or len(got) != 1:
                out.append("a call made with a handler's context after that handler had returned (on a healthy link) returned (%s, %r) and caused %d invocation(s), expected (7, '') and exactly one: every call gets its own handler's result" % (c["ret"], c["err"], len(got)))
            continue
        if len(got) != 1:
            out.append("call tag %d caused %d invocations, expected exactly one" % (c["tag"], len(got)))
            continue
        g = got[0]
        if g["node"] != other(c["from"]):
            out.append("call tag %d from %s was handled on %s" % (c["tag"], c["from"], g["node"]))
        if g["m"] != c["m"]:
            out.append("call tag %d of %s invoked %s" % (c["tag"], c["m"], g["m"]))
        if c["m"] == "EchoInt" or c["m"] == "EchoStr":
            if g["data"] != c["arg"]:
                out.append("call tag %d: handler received %s, caller passed %s" % (c["tag"], g["data"], c["arg"]))
            if c["ret"] != c["arg"] or c["err"] != "":
                out.append("call tag %d (%s %s) returned (%s, %r): not its own handler's result" % (c["tag"], c["m"], c["arg"], c["ret"], c["err"]))
        elif c["m"] == "FailVal":
            v, msg = json.loads(c["arg"])
            if c["ret"] != str(v) or c["err"] != msg:
                out.append("call tag %d (FailVal %s) returned (%s, %r): not its own handler's result" % (c["tag"], c["arg"], c["ret"], c["err"]))
        elif c["m"] == "EchoLease":
            if g["data"] != c["arg"]:
                out.append("call tag %d: the handler ran with the argument %s, the caller passed %s (a value whose type implements context.Context is an argument like any other)" % (c["tag"], g["data"], c["arg"]))
            if c["ret"] != c["arg"] or c["err"] != "":
                out.append("call tag %d (EchoLease %s) returned (%s, %r): not its own handler's result" % (c["tag"], c["arg"], c["ret"], c["err"]))
        elif c["m"] == "EchoPtr":
            if g["data"] != c["arg"]:
                out.append("call tag %d: the handler ran with the pointer argument %s, the caller passed %s: the invocation is not with this call's arguments" % (c["tag"], g["data"], c["arg"]))
            if c["ret"] != c["arg"] or c["err"] != "":
                out.append("call tag %d (EchoPtr %s) returned (%s, %r): not its own handler's result" % (c["tag"], c["arg"], c["ret"], c["err"]))
        elif c["m"] == "Notify0":
            if c["err"] != "":
                out.append("call tag %d of a function whose handler returns nothing returned error %r (the handler ran %d time(s))" % (c["tag"], c["err"], len(got)))
        elif c["m"] == "Fail":
            if c["err"] != json.loads(c["arg"]):
                out.append("call tag %d (Fail %s) returned error %r: not the error its own handler returned" % (c["tag"], c["arg"], c["err"]))
        elif c["m"] in ("Sub.Deep.Ping", "Sub.Ping", "After"):
            off = {"Sub.Deep.Ping": 2000, "Sub.Ping": 1000, "After": 3000}[c["m"]]
            if c["ret"] != str(c["tag"] + off) or c["err"] != "":
                out.append("call tag %d (%s) returned (%s, %r): not the result of that function" % (c["tag"], c["m"], c["ret"], c["err"]))
    return out


def mon_c02(rec):
    out = []
    if rec.get("hang"):
        out.append("deadlock / starvation: %s" % (rec.get("notes") or ["calls did not complete"]))
    if rec["family"] == "closures":
        return out + [v for v in mon_c11(rec) if "stalled" in v or "wedged" in v or "cancelled while" in v or "in flight" in v or "ended" in v]
    for c in rec["calls"] or []:
        if c["m"] == "Nest":
            if c["err"] != "" or c["ret"] != c["arg"]:
                out.append("alternating call chain of depth %s from %s returned (%s, %r)" % (c["arg"], c["from"], c["ret"], c["err"]))
        if c["m"] == "Iter" and (c["err"] != "" or c["ret"] != "n0/;n1/;n2/"):
            out.append("closure calls issued while handlers were stalled returned (%s, %r)" % (c["ret"], c["err"]))
        if c["m"] == "ChainFromEnumeration" and (c["err"] != "" or c["ret"] != "cb0/;cb1/"):
            out.append("a chain whose outermost call is made from inside the enumeration callback and which comes back with a function argument (B -> A.CallBackIter -> B.Iter(f) -> f on A; only the outermost call is issued from the callback) returned (%s, %r), expected ('cb0/;cb1/', '') - while handlers were stalled" % (c["ret"], c["err"]))
        if c["m"] == "Spawn" and (c["err"] != "" or c["ret"] != "640"):
            out.append("a handler that starts a call back on a goroutine of its own and returns at once: its caller got (%s, %r) instead of (640, '') within 4 s - the response waited for the spawned call, whose handler is stalled" % (c["ret"], c["err"]))
        if c["m"] == "Gate" and (c["err"] != "" or c["ret"] != str(c["tag"])):
            out.append("stalled handler tag %d returned (%s, %r) after its gate opened" % (c["tag"], c["ret"], c["err"]))
    return out


def mon_c09(rec):
    out = []
    invs = invs_by_tag(rec)
    for n in rec.get("notes") or []:
        out.append(n)
    for c in rec["calls"] or []:
        if c["m"] in ("FailVal", "PartialStruct"):
            # a value that accompanies an error arrives as well as the error
            if c["err"] != c.get("extra"):
                out.append("%s tag %d: the handler returned the error %r, the caller got %r" % (c["m"], c["tag"], c.get("extra"), c["err"]))
            if c["ret"] != c["oracle"]:
                out.append("%s tag %d: the handler returned the value %s together with an error, the caller got %s" % (c["m"], c["tag"], c["oracle"][:120], c["ret"][:120]))
            continue
        if c["err"] != "":
            out.append("call %s tag %d (%s) failed: %r" % (c["m"], c["tag"], c["arg"][:80], c["err"]))
            continue
        if c["m"] == "Zero":
            continue
        if c["m"] in ("Greet", "Tags", "Mirror"):
            # handlers that return a value and no error: the value arrives
            got = invs.get(c["tag"], [])
            if len(got) != 1 or got[0]["data"] != c["oracle"]:
                out.append("%s tag %d: handler received %s, expected %s" % (c["m"], c["tag"], [g["data"] for g in got], c["oracle"]))
            if c["ret"] != c.get("extra"):
                out.append("%s tag %d: the handler returned the value %s (and no error), the caller got %s" % (c["m"], c["tag"], (c.get("extra") or "")[:120], c["ret"][:120]))
            continue
        if c["m"] == "EchoNamed":
            got = invs.get(c["tag"], [])
            if len(got) != 1 or got[0]["data"] != c["oracle"]:
                out.append("EchoNamed tag %d: handler received %s, a direct encode/decode into the declared named types gives %s" % (c["tag"], [g["data"] for g in got], c["oracle"]))
            if c["ret"] != c.get("extra"):
                out.append("EchoNamed tag %d: caller got %s, expected %s" % (c["tag"], c["ret"], c.get("extra")))
            continue
        got = invs.get(c["tag"], [])
        if len(got) != 1:
            out.append("call tag %d: %d invocations" % (c["tag"], len(got)))
            continue
        if got[0]["data"] != c["oracle"]:
            out.append("%s tag %d: handler received %s but a direct encode/decode into the declared type gives %s (passed %s)" % (c["m"], c["tag"], got[0]["data"][:120], c["oracle"][:120], c["arg"][:120]))
        if c["m"] == "Multi":
            if c["ret"] != c["oracle"]:
                out.append("Multi tag %d: the handler saw %s, oracle %s" % (c["tag"], c["ret"][:160], c["oracle"][:160]))
        elif c["ret"] != c["oracle"]:
            # result = handler's value after the same round trip; Echo handlers return what they received
            out.append("%s tag %d: caller got %s, expected %s" % (c["m"], c["tag"], c["ret"][:120], c["oracle"][:120]))
    return out


def blank(msg):
    return msg.strip() == "" or all(ch.isspace() for ch in msg)


def mon_c10(rec):
    out = []
    for n in rec.get("notes") or []:
        out.append(n)
    for c in rec["calls"] or []:
        if c.get("extra") == "probe":
            if c["err"] != "" or c["ret"] != "42":
                out.append("an application-level error terminated the link: probe call returned (%s, %r)" % (c["ret"], c["err"]))
            continue
        msg = json.loads(c["arg"])
        if msg == "<nil>":
            want = "<nil>"
        elif blank(msg):
            continue    # outside the property's premise (no non-blank character)
        else:
            want = msg
        if c["m"] == "IterNilErr":
            # pages: 0 -> (["a"], nil); 1 -> (nil, error msg) ; 2 -> (nil, nil): the callee concatenates what it received
            want_ret = '0:["a"]/;1:null/%s;2:null/' % ("" if want == "<nil>" else want)
            if c["ret"] != want_ret or c["err"] != "<nil>":
                out.append("closure returning a nil value together with the error %r: the callee received %r, expected %r" % (msg, c["ret"], want_ret))
            continue
        if c["m"] == "IterValErr":
            # the callee concatenates "<value>/<error text it received>"
            want_ret = "val/" + ("" if want == "<nil>" else want)
            if c["ret"] != want_ret or c["err"] != "<nil>":
                out.append("closure returning (\"val\", %r): the callee received %r" % (msg, c["ret"]))
            continue
        if c["err"] != want:
            out.append("%s with message %r: caller got error %r" % (c["m"], msg, c["err"]))
        if c["m"] == "FailVal" and c["ret"] != c.get("extra"):
            out.append("FailVal with message %r: the accompanying value %s arrived as %s" % (msg, c.get("extra"), c["ret"]))
    return out


def mon_c11(rec):
    out = []
    for n in rec.get("notes") or []:
        out.append(n)
    for c in rec["calls"] or []:
        if c["m"] == "Iter":
            n = int(c["arg"])
            fail_at = int(c["oracle"])
            if c["err"] != "":
                out.append("Iter tag %d (n=%d) failed: %r" % (c["tag"], n, c["err"]))
                continue
            if c["ret"] != expected_iter(n, fail_at, c["tag"]):
                out.append("Iter tag %d (n=%d): the callee received results %r, expected %r" % (c["tag"], n, c["ret"], expected_iter(n, fail_at, c["tag"])))
            runs = c.get("extra", "").split("|") if c.get("extra") else []
            if sorted(runs) != expected_runs(n):
                out.append("Iter tag %d (n=%d): the caller's function ran with %s, expected %s" % (c["tag"], n, sorted(runs)[:6], expected_runs(n)[:6]))
        elif c["m"] == "Two":
            if c["err"] != "" or c["ret"] != "10/,20/;11/,21/;12/,22/":
                out.append("Two closures in one call: the callee's invocations of (f, g) returned %r (error %r), expected '10/,20/;11/,21/;12/,22/' (each callable must reach its own function)" % (c["ret"], c["err"]))
            if c.get("extra") != "f0|g0|f1|g1|f2|g2":
                out.append("Two closures in one call: the caller's functions ran as %r, expected f0|g0|f1|g1|f2|g2" % c.get("extra"))
        elif c["m"] == "IterNamed":
            want_runs = '[0,"",0,0]|[3,"nm",0.5,-4]|[1099511627776,"ü\\"q",-1.25,127]'
            if c["err"] != "" or c["ret"] != "0:0/;1:5/;2:1099511627780/":
                out.append("closure with named-type parameters: the callee's invocations returned %r (error %r), expected '0:0/;1:5/;2:1099511627780/'" % (c["ret"], c["err"]))
            elif c.get("extra") != want_runs:
                out.append("closure with named-type parameters ran with %r, expected %r" % (c.get("extra"), want_runs))
        elif c["m"] == "IterCount":
            if c["err"] != "" or c["ret"] != "0:0/;1:10/;2:8589934594/":
                out.append("closure with named integer parameters: the callee's invocations returned %r (error %r), expected '0:0/;1:10/;2:8589934594/'" % (c["ret"], c["err"]))
        elif c["m"] == "IterPreCancelled":
            if c["err"] != "" or c["ret"] != "0/context canceled;22/":
                out.append("the callee invoked the passed function with an already cancelled context, then with a live one: the invocations ended as %r (call error %r), expected '0/context canceled;22/' (only the invocation whose context is cancelled fails)" % (c["ret"], c["err"]))
        elif c["m"] == "Groups":
            if c["err"] != "" or c["ret"] != "1[alice],0[],2[bob carol],0[]":
                out.append("a function whose parameter is a list of lists, invoked with a nil inner list: the caller's function reported %r (error %r), expected '1[alice],0[],2[bob carol],0[]'" % (c["ret"], c["err"]))
        elif c["m"] == "OverlappingSameFunction":
            if c["ret"] != "4910/;5011/":
                out.append("two overlapping calls of the same remote function, each passing its own function: they returned %r, expected '4910/;5011/' - when the first call returned, the registration of the second call's function (a call still in flight; a late invocation it is not) must still exist" % c["ret"])
        elif c["m"] == "IterPanicsOnce":
            if c["err"] != "" or c["ret"] != "/cbpanic;r1/;r2/" or c.get("extra") != "3":
                out.append("a function argument that panics on its first invocation: the callee's three invocations ended as %r (call error %r), the function ran %s time(s); expected '/cbpanic;r1/;r2/' and 3 - a late invocation is what must be rejected, not an invocation while the call is in flight" % (c["ret"], c["err"], c.get("extra")))
        elif c["m"] == "Mixed":
            if c["err"] != "" or c["ret"] != "70,800,7,tail":
                out.append("function arguments declared between plain arguments: the callee computed %r (error %r) from f(n), g(n+1), n, s; expected '70,800,7,tail' (every argument in its declared position)" % (c["ret"], c["err"]))
        elif c["m"] == "IterDerived":
            if c["err"] != "" or c["ret"] != "A=/context canceled;B=r0/;C=r2/":
                out.append("one invocation of the callable was cancelled through its own context while another was in flight: the callee's invocations ended as %r (call error %r), expected 'A=/context canceled;B=r0/;C=r2/' (only the cancelled invocation is affected)" % (c["ret"], c["err"]))
        elif c["m"] == "Call0":
            if c["err"] != "" or c["ret"] != "4850":
                out.append("a closure that takes only a context: the callee's invocation returned (%s, %r), expected (4850, '')" % (c["ret"], c["err"]))
        elif c["m"] == "SameLiteral":
            want = str(1000 * (c["tag"] - 4830 + 1) + c["tag"])
            if c["err"] != "" or c["ret"] != want:
                out.append("two calls in flight passing closures made by the same function literal: call tag %d got (%s, %r) from its callee, expected %s (the closure of its own call)" % (c["tag"], c["ret"], c["err"], want))
        elif c["m"] == "KeepAndCallCancelled":
            if c["err"] != "context canceled":
                out.append("a call cancelled while the callee was inside an invocation of its closure returned (%s, %r) instead of promptly returning the context's error" % (c["ret"], c["err"]))
        elif c["m"] == "LateInvokeAfterInFlight":
            if c["err"] != "closure does not exist" or c.get("extra") != "1":
                out.append("late invocation of a closure after its call returned (an earlier invocation was still running when the call returned): error %r, function ran %s time(s) in total, expected 'closure does not exist' and 1" % (c["err"], c.get("extra")))
        elif c["m"] == "BadClosureArg":
            if c["err"] == "":
                out.append("a call passing a function argument that cannot be a closure (no error result) returned a nil error")
            if c.get("extra") != "0":
                out.append("after a call with an unusable function argument returned, %s closure registration(s) remain" % c.get("extra"))
        elif c["m"] == "CbFirstUnencodable":
            if c["err"] == "":
                out.append("a call with an unencodable argument returned a nil error")
            if c.get("extra") != "0":
                out.append("after a call failed to encode a later argument, %s closure registration(s) of its earlier argument remain" % c.get("extra"))
        elif c["m"] == "InvokeWhileResponseInTransit":
            if c["err"] != "" or c["ret"] != "21" or c.get("extra") != "1":
                out.append("not a late invocation: the callee's handler had returned but its response was still in transit, so the call had NOT returned on the caller's side: invoking its function returned (%s, %r), function ran %s time(s); expected (21, '') and 1 - the registration lives until the call returns on the caller's side" % (c["ret"], c["err"], c.get("extra")))
        elif c["m"] == "LateInvokeWhileOtherInFlight":
            if c["err"] != "closure does not exist" or c.get("extra") != "false/0":
                out.append("late invocation of a closure whose call has returned, made while another closure-carrying call was in flight: error %r, functions ran (own/other) %s, expected 'closure does not exist' and false/0 (it must not reach any function)" % (c["err"], c.get("extra")))
        elif c["m"] == "DelayedDuringLateInvoke":
            if c["err"] != "" or c["ret"] != "4991":
                out.append("the closure-carrying call that was in flight during a late invocation of another call's closure returned (%s, %r), expected (4991, '')" % (c["ret"], c["err"]))
        elif c["m"] == "LateInvoke":
            if c["err"] != "closure does not exist" or c.get("extra") != "false":
                out.append("late invocation of a closure after its call returned: error %r, function ran=%s" % (c["err"], c.get("extra")))
        elif c.get("extra") == "probe" and (c["err"] != "" or c["ret"] != "42"):
            out.append("link not healthy after closure workload: probe returned (%s, %r)" % (c["ret"], c["err"]))
        elif c["m"] == "IterProbe" and (c["err"] != "" or c["ret"] != "p/"):
            out.append("a closure-carrying call after a rejected late invocation returned (%s, %r): closures are wedged" % (c["ret"], c["err"]))
        elif c["m"] == "IterCancelled" and c["err"] != "context canceled":
            out.append("a call cancelled while its closure was running returned (%s, %r) instead of promptly returning the context's error" % (c["ret"], c["err"]))
        elif c["m"] == "IterWhileStalled" and (c["err"] != "" or c["ret"] != "q/;q/"):
            out.append("an independent closure-carrying call issued while another closure was stalled returned (%s, %r)" % (c["ret"], c["err"]))
    return out


def mon_hooks(rec):
    """C14 on black-box workloads: balanced notifications per remote id, atomic with the enumeration"""
    out = []
    per = collections.defaultdict(list)
    for e in rec.get("events") or []:
        if e["kind"] == "hook":
            per[(e["node"], e.get("remote"))].append(e["m"])
        if e["kind"] == "probe":
            if e["m"] == "disconnect" and e.get("data") == "false":
                out.append("during the disconnect notification of %s on %s a concurrent enumeration completed and no longer showed the remote, although the per-link disconnect had not been announced" % (e.get("remote"), e["node"]))
            if e["m"] == "connect" and e.get("data") == "true":
                out.append("during the connect notification of %s on %s a concurrent enumeration completed and already showed the remote, although the per-link connect had not been announced" % (e.get("remote"), e["node"]))
    # nothing of a link is handled before its connect notification
    announced = set()
    for e in rec.get("events") or []:
        if e["kind"] == "hook" and e["m"] == "connect":
            announced.add((e["node"], e.get("remote")))
        if e["kind"] == "inv" and e.get("remote") and (e["node"], e.get("remote")) not in announced:
            out.append("node %s handled a request (%s, tag %s) of the link with identifier %s before that link's connect notification" % (e["node"], e["m"], e.get("tag"), e.get("remote")))
            break
    for (node, rid), ms in per.items():
        want = ["connect", "link-connect", "disconnect", "link-disconnect"]
        if ms != want[:len(ms)] or len(ms) % 2 != 0:
            out.append("node %s remote %s: notifications %s are not connect(registry), connect(link), disconnect(registry), disconnect(link)" % (node, rid, ms))
    return out


def mon_c13(rec):
    out = []
    if rec.get("hang"):
        out.append("calls did not complete after one link failed")
    victim = None
    for n in rec.get("notes") or []:
        m = re.match(r"victim=(\d+)", n)
        if m:
            victim = int(m.group(1))
        else:
            out.append(n)
    evs = rec.get("events") or []
    connects = [e for e in evs if e["kind"] == "hook" and e["m"] == "connect" and e["node"] == "H"]
    ids = [e["remote"] for e in connects]
    if len(set(ids)) != len(ids):
        out.append("the hub announced the same remote id for two links: %s" % ids)
    who = {}
    for c in rec["calls"] or []:
        if c["m"] == "WhoAmI":
            i = c["tag"] - 700
            who[i] = c["ret"]
            if c["err"] != "" or c["ret"] not in ids:
                out.append("spoke %d: the id in the handler context (%r) is not an announced remote id %s" % (i, c["ret"], ids))
    if len(set(who.values())) != len(who):
        out.append("two links share one identity in handler contexts: %s" % who)
    invs = invs_by_tag(rec)
    for c in rec["calls"] or []:
        if c["m"] == "EchoInt" and c["from"] == "H":
            # delivered only to the spoke enumerated under that id
            got = invs.get(c["tag"], [])
            i = c["tag"] - 720
            if len(got) != 1 or got[0]["node"] != "S%d" % i or c["ret"] != str(c["tag"]) or c["err"] != "":
                out.append("hub call through remote %s (spoke %d) was handled by %s and returned (%s, %r)" % (c.get("extra"), i, [g["node"] for g in got], c["ret"], c["err"]))
        if c.get("extra") == "survivor" and (c["err"] != "" or c["ret"] != c["arg"]):
            out.append("after link %s failed a call on surviving link of %s returned (%s, %r)" % (victim, c["from"], c["ret"], c["err"]))
        if c["m"] == "IterAcross":
            i = c["tag"] - 780
            if i != victim and (c["err"] != "" or c["ret"] != "h%d/" % i):
                out.append("the closure-carrying call in flight on link %d was affected by the failure of link %s or reached another link's function: returned (%s, %r), expected 'h%d/'" % (i, victim, c["ret"], c["err"], i))
        if c["m"] == "DelayedAcross":
            i = c["tag"] - 7100
            if i != victim and (c["err"] != "" or c["ret"] != str(20000 * (i + 1) + c["tag"])):
                out.append("the closure the hub passed on link %d (every link gets one made by the same function literal, each answering with its own mark) did not do its job while link %s failed: the call returned (%s, %r), expected %d from this link's own function" % (i, victim, c["ret"], c["err"], 20000 * (i + 1) + c["tag"]))
        if c["m"] == "QuickCbAcross" and (c["err"] != "" or c["ret"] != "quick/"):
            out.append("while a function the hub passed on one link was being executed for that link's peer, a closure-carrying call of the hub on ANOTHER link returned (%s, %r) instead of completing ('quick/') within 3 s" % (c["ret"], c["err"]))
        if c["m"] == "SlowCbAcross" and (c["err"] != "" or c["ret"] != "slow/"):
            out.append("the hub's closure-carrying call whose function ran long returned (%s, %r), expected 'slow/'" % (c["ret"], c["err"]))
        if c["m"] == "WhoAmINew":
            if c["err"] != "" or c["ret"] in (c.get("extra") or "").split(","):
                out.append("a link established after another one failed got identity %r (error %r), already used by %s" % (c["ret"], c["err"], c.get("extra")))
        if c["m"] == "EchoIntNew":
            got = invs.get(798, [])
            if c["err"] != "" or c["ret"] != "798" or [g["node"] for g in got] != ["SN"]:
                out.append("a call through the newest remote was handled by %s and returned (%s, %r)" % ([g["node"] for g in got], c["ret"], c["err"]))
        if c["m"] == "WhoAmIAgain" and (c["err"] != "" or c["ret"] != c.get("extra")):
            out.append("the identity of surviving link of %s changed from %s to %s after a relink" % (c["from"], c.get("extra"), c["ret"]))
        if c["m"] == "Gate":
            i = c["tag"] - 740
            if i != victim and (c["err"] != "" or c["ret"] != str(c["tag"])):
                out.append("the in-flight call on link %d was affected by the failure of link %s: returned (%s, %r)" % (i, victim, c["ret"], c["err"]))
            if i == victim and c["err"] == "":
                pass  # may have completed before the failure
    return out


DOC_REQ = {"call", "function", "args"}
DOC_RES = {"call", "value", "err"}


def mon_c17(rec):
    out = []
    for n in rec.get("notes") or []:
        out.append(n)
    if rec["family"] == "foreign":
        want = {901: ("c1", 5, ""), 902: ("c2", "hi", ""), 903: ("c3", None, ""), 904: ("c4", None, "nope"), 905: ("c5", 2905, ""),
                906: ("c6", 3, ""), 907: ("c7", 0, ""), 908: ("c8", "", ""), 909: ("c9", None, ""), 910: ("c10", "hello x", ""), 911: ("s1", 6, ""), 912: ("s2", "x", ""), 913: ("s3", None, ""),
                915: ("s5", 7, ""), 917: ("s7", 0, ""), 920: ("s10", 8, ""), 921: ("c21", 4921, ""), 922: ("c22", 924, ""), 923: ("c23", "3", ""), 924: ("c24", None, "own error 5"), 925: ("c25", None, "")}
        for c in rec["foreign"] or []:
            if c.get("extra") == "none-expected":
                if c["ret"]:
                    out.append("a stream envelope carrying only a response for an unknown call (%s) made the registry emit %s: an envelope carries exactly one of request and response, nothing of an earlier frame may be handled again" % (c["arg"].strip()[:70], c["ret"][:200]))
                continue
            if c["err"]:
                out.append("foreign frame (%s) %s was not answered: %s" % (c["m"], c["arg"].strip()[:80], c["err"]))
                continue
            d = json.loads(c["ret"])
            if "response" in d or "request" in d:
                if d.get("request") is not None or d.get("response") is None:
                    out.append("stream envelope does not carry exactly one of request/response: %s" % c["ret"])
                    continue
                d = d["response"]
            call, val, err = want[c["tag"]]
            if d.get("call") != call or d.get("value") != val or d.get("err") != err or set(d) != DOC_RES:
                out.append("foreign frame (%s) answered with %s, expected call=%s value=%r err=%r" % (c["m"], c["ret"], call, val, err))
        return out
    seen_ids = set()
    reqs = {}
    for f in sorted(rec["frames"] or [], key=lambda f: 0 if f["dir"].endswith("req") else 1):
        if f.get("err"):
            out.append("emitted %s frame does not decode with an independent decoder: %s" % (f["dir"], f["err"]))
            continue
        d = json.loads(f["gen"])
        if f["dir"].endswith("req"):
            if set(d) != DOC_REQ:
                out.append("request frame has keys %s, documented: call, function, args" % sorted(d))
                continue
            if not isinstance(d["call"], str) or d["call"] == "" or d["call"] in seen_ids:
                out.append("request call id %r is empty or not unique" % (d["call"],))
            seen_ids.add(d["call"])
            if not isinstance(d["args"], list):
                out.append("request args is %r, must be an array (empty, never null)" % (d["args"],))
            reqs[d["call"]] = d
        else:
            if set(d) != DOC_RES:
                out.append("response frame has keys %s, documented: call, value, err" % sorted(d))
                continue
            if d["call"] not in reqs:
                out.append("response carries call id %r that no request had" % (d["call"],))
            if not isinstance(d["err"], str):
                out.append("response err is %r, must be a string" % (d["err"],))
    # per call: function name and argument count
    byfn = collections.defaultdict(list)
    for d in reqs.values():
        byfn[d["function"]].append(d)
    arity = {"Delayed": 2, "Zero": 0, "EchoInt": 2, "Fail": 2, "FailVal": 3, "Multi": 8, "Iter": 3, "Sub.Deep.Ping": 1, "EchoPtr": 2, "CallClosure": 2,
             "EchoStr": 2, "EchoStruct": 2, "Call0": 2, "Notify0": 1, "Keep": 2, "FailOwn": 2, "Two": 3}
    for fn, ds in byfn.items():
        if fn not in arity:
            out.append("request names function %r which no call used" % fn)
            continue
        for d in ds:
            if isinstance(d["args"], list) and len(d["args"]) != arity[fn]:
                out.append("request for %s carries %d arguments, expected %d (one per non-context argument)" % (fn, len(d["args"]), arity[fn]))
    for d in byfn.get("CallClosure", []):
        if isinstance(d["args"], list) and len(d["args"]) == 2 and not isinstance(d["args"][1], list):
            out.append("closure invocation request carries the closure's arguments as %r: one array element per argument - an empty array, never null, for a closure that takes only a context" % (d["args"][1],))
    for d in byfn.get("EchoInt", []):
        a = d["args"]
        if isinstance(a, list) and len(a) == 2:
            t, x = [(v.get("$decoded") if isinstance(v, dict) else v) for v in a]
            if isinstance(t, int) and 82000 <= t < 83000 and x != t - 82000 + 7000:
                out.append("request frame of the call EchoInt(tag %d, %d) carries the arguments (%r, %r): with many overlapping calls of one function every frame carries its own call's arguments" % (t, t - 82000 + 7000, t, x))
    for c in rec["calls"] or []:
        if c["m"] == "Two" and (c["err"] != "" or c["ret"] != '"10/,20/;11/,21/;12/,22/"'):
            out.append("two callables passed in one call: the callee's invocations of (f, g) returned %s (error %r), expected \"10/,20/;11/,21/;12/,22/\": every invocation frame names the callable that was invoked" % (c["ret"], c["err"]))
        if c["m"] == "EchoInt" and c.get("arg") and 82000 <= c["tag"] < 83000 and (c["err"] != "" or c["ret"] != c["arg"]):
            out.append("one of many overlapping calls of one function, EchoInt(tag %d, %s), returned (%s, %r)" % (c["tag"], c["arg"], c["ret"], c["err"]))
    for c in rec["calls"] or []:
        if c["m"] not in byfn:
            out.append("call of %s produced no request frame with that dotted name" % c["m"])
    # error string empty exactly when the error is nil; value null when there is none
    res_by_call = {}
    for f in rec["frames"] or []:
        if not f["dir"].endswith("res") or f.get("err"):
            continue
        d = json.loads(f["gen"])
        res_by_call[d.get("call")] = d
    for call, q in reqs.items():
        r = res_by_call.get(call)
        if r is None:
            continue
        fn, args = q["function"], q["args"]
        if fn == "Fail":
            want_err = "" if args[1] == "<nil>" else args[1]
            if r["err"] != want_err or r["value"] != {"$decoded": None}:
                out.append("response to Fail(%r): err=%r value=%r" % (args[1], r["err"], r["value"]))
        if fn == "FailVal":
            want_err = "" if args[2] == "<nil>" else args[2]
            if r["err"] != want_err or r["value"] != {"$decoded": args[1]}:
                out.append("response to FailVal(%r, %r): err=%r value=%r" % (args[1], args[2], r["err"], r["value"]))
        if fn == "FailOwn":
            want_err = "" if args[1] == 0 else "own error %d" % args[1]
            if r["err"] != want_err or r["value"] != {"$decoded": None}:
                out.append("response to FailOwn(%r) (a handler whose only result has an error interface type of its own): err=%r value=%r, expected err=%r and a null value" % (args[1], r["err"], r["value"], want_err))
        if fn == "Zero" and (r["err"] != "" or r["value"] != {"$decoded": None}):
            out.append("response to Zero: err=%r value=%r" % (r["err"], r["value"]))
        if fn in ("EchoInt", "EchoStr", "EchoStruct") and (r["err"] != "" or r["value"] != {"$decoded": args[1]}):
            out.append("response to %s(%r): err=%r value=%r (the value must be the validly encoded return value; a zero value is a value, not null)" % (fn, args[1], r["err"], r["value"]))
    return out


def mon_linkend(rec, pid="C03"):
    """family linkend: a read fails with a sentinel error / a response write is stuck, then the link ends"""
    out = []
    for n in rec.get("notes") or []:
        out.append("%s: %s" % (rec["config"], n))
    if rec.get("hang"):
        out.append("%s: the scenario did not finish" % rec["config"])
    for c in rec["calls"] or []:
        m = c["m"]
        if m == "InFlightAtEnd":
            if not c.get("done"):
                out.append("the call in flight when the link ended never returned (%s)" % c.get("extra"))
            elif c["err"] == "":
                out.append("the call in flight when the link ended returned a nil error without a response (%s)" % c.get("extra"))
        elif m == "LinkReturn" and c["ret"] != "returned":
            out.append("Link did not return after its transport failed / its context was cancelled (%s)" % c.get("extra"))
        elif m == "LaterCall":
            if c["err"] == "":
                out.append("a call made after the link ended returned a nil error (%s)" % c.get("extra"))
            elif "took true" in (c.get("extra") or ""):
                out.append("a call made after the link ended did not fail at once (%s)" % c.get("extra"))
        elif m == "CallWhileWriteStuck" and (c["err"] != "" or c["ret"] != "9"):
            out.append("while an unrelated response write was stuck in the transport, an independent call returned (%s, %r) (%s)" % (c["ret"], c["err"], rec["config"]))
    return out


def mon_framing(rec):
    """family framing: the same traffic over the message API, split stream envelopes, one combined envelope"""
    out = []
    for n in rec.get("notes") or []:
        out.append("%s: %s" % (rec["config"], n))
    want = {"PeerRequest1": ("5", ""), "NodeCall": ('"x"', ""), "PeerRequest2": ("null", ""),
            "PeerRequestWithCallable": ("null", "from the peer's function"), "PeerRequest3": ("6", "")}
    for c in rec["calls"] or []:
        if c["m"] == "MissingAnswer":
            out.append("%s: after the peer handed back the result of a callable together with a further request, an answer is missing (the callable's result was not handed to the invocation, or the request was not handled)" % rec["config"])
            continue
        if c["m"] == "NodeCallEager":
            if (c["ret"], c["err"]) != (c["arg"], ""):
                out.append("%s: the peer's answer was handed to the registry before the write of the request had returned: the call returned (%s, %r), expected (%s, '')" % (rec["config"], c["ret"], c["err"], c["arg"]))
            continue
        w = want.get(c["m"])
        if w and (c["ret"], c["err"]) != w:
            out.append("%s: %s returned (%s, %r), expected (%s, %r): every request and every response that arrives is delivered, however the peer frames them" % (rec["config"], c["m"], c["ret"], c["err"], w[0], w[1]))
    return out


def mon_relay(rec):
    """family relay (C13): a handler of link 0 relays over link 1 with its request's context; link 0 ends"""
    out = []
    for n in rec.get("notes") or []:
        out.append(n)
    if rec.get("hang"):
        out.append("calls in flight on the other link did not complete after link 0 ended")
    for c in rec["calls"] or []:
        if c["m"] == "ProbeOtherLink" and (c["err"] != "" or c["ret"] != "42"):
            out.append("after link 0 ended (and a call relayed over link 1 with a context of link 0 was aborted), a new call on link 1 from %s returned (%s, %r)" % (c["from"], c["ret"], c["err"]))
        elif c["m"] == "CallOnOtherLinkWithDeadContext":
            if c["err"] != "context canceled" or c["ret"] != "0":
                out.append("a call made over link 1 with an already cancelled context (the context of a request of the ended link 0) returned (%s, %r), expected (0, 'context canceled')" % (c["ret"], c["err"]))
        elif c["m"] == "RelayedOverFailedLink":
            if c["err"] != "closed" or not c.get("done"):
                out.append("a handler serving link 1 relayed the call over link 0, which failed: its caller on link 1 got (%s, %r), expected the handler's own result (0, 'closed') as an ordinary application-level error" % (c["ret"], c["err"]))
        elif c["m"] == "OtherLinkStillUp" and "hands back the error" in rec.get("config", "") and c["ret"] != "up":
            out.append("link 0 failed and a handler serving link 1 handed the resulting error ('closed') back to its caller: the Link call of link 1 on %s returned %r although nothing happened on link 1" % (c.get("extra"), c["err"]))
        elif c["m"] == "OtherLinkStillUp" and c["ret"] != "up":
            out.append("after link 0 ended, the Link call of link 1 on %s returned %r although nothing happened on link 1 (a handler serving link 0 had invoked, with its request's context, a callable passed by link 1's peer)" % (c.get("extra"), c["err"]))
        elif c["m"] == "InFlightOnOtherLink" and (c["err"] != "" or c["ret"] != str(c["tag"])):
            out.append("the call in flight on link 1 (from %s) when link 0 ended returned (%s, %r)" % (c["from"], c["ret"], c["err"]))
    for e in rec.get("events") or []:
        if e["kind"] == "ret" and e["m"] == "Relay" and e.get("err") != "context canceled" and "hands back the error" not in rec.get("config", ""):
            out.append("the call relayed with the context of a request of the ended link returned (%s, %r), expected that context's error" % (e.get("data"), e.get("err")))
    return out


def mon_nestedlink(rec):
    """family nestedlink (C14 / C13): a link whose context descends from a request context of another link"""
    out = []
    for n in rec.get("notes") or []:
        out.append(n)
    for c in rec["calls"] or []:
        m = c["m"]
        if m == "EnumeratedWhileBothLinksLive" and c["ret"] != "2":
            out.append("two links are live (the second was opened with the context of a request of the first) but %s remote(s) are enumerated" % c["ret"])
        elif m == "WhoAmIFirstLink" and (c["err"] != "" or c["ret"] != c.get("extra")):
            out.append("a handler of the first link read identity %r from its context, the link is enumerated as %r (%s)" % (c["ret"], c.get("extra"), c["err"]))
        elif m == "WhoAmISecondLink" and (c["err"] != "" or c["ret"] != c.get("extra") or c.get("extra") == ""):
            out.append("a handler of the second link (opened with the context of a request of the first link) read identity %r from its context, but that link is enumerated as %r (%s)" % (c["ret"], c.get("extra"), c["err"]))
        elif m == "OpenLink" and c["err"] != "":
            out.append("the call that opened the second link failed: %s" % c["err"])
    conn = [e["remote"] for e in rec.get("events") or [] if e["node"] == "H" and e["kind"] == "hook" and e["m"] == "connect"]
    disc = [e["remote"] for e in rec.get("events") or [] if e["node"] == "H" and e["kind"] == "hook" and e["m"] == "disconnect"]
    if len(conn) == 2 and conn[0] == conn[1]:
        out.append("the second link was announced with the identifier %s that the first link is already using: every link gets a fresh identifier" % conn[0])
    if sorted(conn) != sorted(disc):
        out.append("connect notifications %s and disconnect notifications %s do not pair up" % (conn, disc))
    return out


def mon_closureend(rec):
    """family closureend (C03): a closure invocation in flight when the link ends"""
    out = []
    for n in rec.get("notes") or []:
        out.append("%s: %s" % (rec["config"], n))
    seen = False
    for e in rec.get("events") or []:
        if e["kind"] == "ret" and e["m"] == "KeepAndCall" and e["tag"] == 790:
            seen = True
            if e.get("err", "") == "":
                out.append("%s: a handler's invocation of a peer-provided closure was in flight when the link ended: it returned (%s, nil) - a nil error although no response was received" % (rec["config"], e.get("data")))
    for c in rec["calls"] or []:
        if c["m"] == "CallWhoseClosureIsRunning" and (not c.get("done") or c["err"] == ""):
            out.append("%s: the call in flight when the link ended returned (%s, %r)" % (rec["config"], c.get("ret"), c["err"]))
    return out


def mon_enumrace(rec):
    """family enumrace (C14): nothing is enumerated after its disconnect notification"""
    out = []
    for n in rec.get("notes") or []:
        out.append(n)
    gone = set()
    for e in rec.get("events") or []:
        if e["node"] != "H":
            continue
        if e["kind"] == "hook" and e["m"] == "disconnect":
            gone.add(e["remote"])
        elif e["kind"] == "enum" and e["remote"] in gone:
            out.append("remote %s was handed to the enumeration callback after its disconnect notification (a link ended while the enumeration was under way)" % e["remote"])
    return out


def mon_c04_sys(rec):
    """black-box cancellation scenarios (family cancel)"""
    out = []
    for n in rec.get("notes") or []:
        out.append(n)
    if rec.get("hang"):
        out.append("cancellation workload hangs")
    for c in rec["calls"] or []:
        m = c["m"]
        if m == "CancelledWithClosure":
            if c["err"] != "context canceled" or c["ret"] != "0":
                out.append("a closure-carrying call whose context was cancelled while its handler waited returned (%s, %r), expected (0, 'context canceled')" % (c["ret"], c["err"]))
        elif m == "StaleInvoke":
            if c.get("extra") != "false":
                out.append("the closure of a cancelled call ran although its call had already returned")
        elif m in ("Probe", "ProbeClosure"):
            want = "42" if m == "Probe" else "p/"
            if c["err"] != "" or c["ret"] != want:
                out.append("the link is not healthy %s: a later %s call from %s returned (%s, %r)" % (c.get("extra"), "closure-carrying" if m == "ProbeClosure" else "plain", c["from"], c["ret"], c["err"]))
        elif m == "CancelledWhileOtherWriteStuck":
            if c["err"] != "context canceled" or c["ret"] != "0":
                out.append("while the write of ANOTHER call's request was stuck in the transport (stream API, encode function safe for concurrent use), a call whose context was cancelled returned (%s, %r) instead of promptly (0, 'context canceled')" % (c["ret"], c["err"]))
        elif m == "CallWhileOtherWriteStuck":
            if c["err"] != "" or c["ret"] != '"c"':
                out.append("while the write of another call's request was stuck in the transport, an independent call returned (%s, %r), expected (\"c\", '')" % (c["ret"], c["err"]))
        elif m == "MassCancelled":
            if c["ret"] != "0":
                out.append("%s of %s calls cancelled while their handlers were running did not return promptly with the context's error" % (c["ret"], c["arg"]))
        elif m == "CancelledWithCause":
            if c["err"] != "context canceled" or c["ret"] != "0":
                out.append("a call whose context was cancelled with a cause returned (%s, %r), expected the context's error (0, 'context canceled')" % (c["ret"], c["err"]))
        elif m == "TimedOutWithCause":
            if c["err"] != "context deadline exceeded" or c["ret"] != "0":
                out.append("a call whose context timed out with a cause returned (%s, %r), expected the context's error (0, 'context deadline exceeded')" % (c["ret"], c["err"]))
        elif m == "CancelledSibling":
            if c["err"] != "context canceled":
                out.append("a cancelled closure-carrying call returned (%s, %r)" % (c["ret"], c["err"]))
        elif m == "SurvivingSibling":
            if c["err"] != "" or c["ret"] != "951":
                out.append("cancelling one of two calls that pass closures made by the same function literal affected the other one: it returned (%s, %r), expected (951, '')" % (c["ret"], c["err"]))
        elif m == "IterCtx":
            if c["err"] != "" or c["ret"] != "0/context canceled;2/":
                out.append("a closure invocation whose own context was cancelled while the closure ran, then a second invocation: the handler observed %r (error %r), expected '0/context canceled;2/'" % (c["ret"], c["err"]))
    for e in rec.get("events") or []:
        if e["kind"] == "ret" and e["m"] == "Delayed" and e["tag"] == 700 and "closure does not exist" not in e.get("err", ""):
            out.append("invoking the closure of a cancelled call yielded (%s, %r), expected a 'closure does not exist' error" % (e.get("data"), e.get("err")))
    return out


MONITORS = {"C14": mon_hooks, "C01": mon_c01, "C02": mon_c02, "C09": mon_c09, "C10": mon_c10, "C11": mon_c11, "C13": mon_c13, "C17": mon_c17}


# the response-in-transit scenario holds frames of the response direction only, which needs the message API's separate
# response transport: it is a device of the harness, not a configuration of panrpc, and is left out of the comparison
MESSAGE_API_ONLY_TAGS = {4970, 4971}


def transcript(rec):
    """normalised transcript for C08: ids erased, per-call lines sorted"""
    lines = []
    for c in rec["calls"] or []:
        if c["tag"] in MESSAGE_API_ONLY_TAGS:
            continue
        err = c["err"]
        if c["m"] == "CbFirstUnencodable" and err:
            err = "<the serializer's own error for an unencodable value>"
        lines.append("%s|%d|%s|%s|%s|%s|%s" % (c["m"], c["tag"], c["from"], c["oracle"] if rec["family"] == "values" else c["arg"], c["ret"], err, c.get("extra", "") if rec["family"] != "values" else ""))
    evs = collections.Counter()
    for e in rec.get("events") or []:
        if e["kind"] == "inv":
            if e["tag"] in MESSAGE_API_ONLY_TAGS:
                continue
            evs["inv|%s|%s|%d|%s" % (e["node"], e["m"], e["tag"], e.get("data", "") if rec["family"] != "values" else "")] += 1
        elif e["kind"] == "hook":
            evs["hook|%s|%s" % (e["node"], e["m"])] += 1
        elif e["kind"] == "ctxerr":
            evs["handler-context-after-the-link-ended|%s|%s" % (e["node"], e.get("data"))] += 1
    return sorted(lines), dict(evs), ()


def check_c08(res, tier, seed, wd, binary):
    n = 2 if tier == "quick" else 12
    recs, rc, out = C.run_job(binary, wd, "config", dict(family="config", seed=seed, n=n), timeout=(300 if tier == "quick" else 3000))
    hits = 0
    if rc != 0:
        hits += 1
        res.violation("sys-crash", "the process died during the configuration sweep: %s" % (out.strip().splitlines() or ["?"])[-1][:300], dict(output=out[-3000:]))
    groups = collections.defaultdict(list)
    for r in recs:
        groups[(r["family"], r["seed"])].append(r)
    nconf = set()
    for (fam, sd), rs in groups.items():
        ref = None
        for r in rs:
            nconf.add(r["config"])
            # per-config own monitor first (a config that misbehaves on its own)
            mon = {"values": mon_c09, "errors": mon_c10, "closures": mon_c11}.get(fam, lambda r: [])
            t = transcript(r)
            if fam == "values":
                # values are compared after each serializer's own round trip: compare only outcome shapes
                t = ([re.sub(r"\|[^|]*\|[^|]*\|", "|", l, count=0) for l in []], t[1], t[2])
                own = mon(r)
                if own:
                    hits += 1
                    res.violation("config-values:" + r["config"], "under configuration %s the workload misbehaves: %s" % (r["config"], own[0]),
                                  dict(kind="config", family=fam, seed=sd, config=r["config"], all=own[:10]))
                continue
            if ref is None:
                ref = (r["config"], t)
            elif t != ref[1]:
                hits += 1
                a, b = ref[1], t
                diff = [l for l in a[0] if l not in b[0]][:3] + [l for l in b[0] if l not in a[0]][:3]
                evd = {k: (a[1].get(k), b[1].get(k)) for k in set(a[1]) | set(b[1]) if a[1].get(k) != b[1].get(k)}
                res.violation("config-diff:" + fam, "workload %s/seed %d behaves differently under %s and %s: %s %s %s" % (fam, sd, ref[0], r["config"], diff, dict(list(evd.items())[:3]), (a[2], b[2])),
                              dict(kind="config", family=fam, seed=sd, configs=[ref[0], r["config"]], differing_lines=diff, differing_events=evd, link_errors=[a[2], b[2]]))
    # a burst of requests followed by the peer's disappearance: everything received is dispatched, under both APIs
    brecs, brc, bout = C.run_job(binary, wd, "bursteof", dict(family="sys", seed=seed, n=(12 if tier == "quick" else 200), cases=["bursteof"]), timeout=300)
    for r in brecs:
        for c in r.get("calls") or []:
            if c["m"] == "BurstThenEOF" and c["ret"] != c["arg"]:
                hits += 1
                res.violation("bursteof:" + r["config"], "under %s only %s of %s requests that arrived before the peer disappeared were handled (the other link API handles all of them)" % (r["config"], c["ret"], c["arg"]),
                              dict(kind="bursteof", config=r["config"], seed=r["seed"], link_error=r.get("linkA")))
        for n in r.get("notes") or []:
            hits += 1
            res.violation("bursteof-note", "%s: %s" % (r["config"], n), dict(kind="bursteof", seed=r["seed"]))
    recs += brecs
    return recs, hits, dict(configurations=sorted(nconf), workloads=len(groups))


def check(res, tier, seed):
    pid = res.pid
    wd = C.workdir(pid)
    C.proof_obligations(res, pid, wd)
    binary = C.build_harness(wd)
    hits = 0
    extra = {}
    if pid == "C08":
        recs, hits, extra = check_c08(res, tier, seed, wd, binary)
    else:
        n = {"quick": 48, "thorough": 600}[tier]
        recs, rc, out = C.run_job(binary, wd, "sys", dict(family="sys", seed=seed, n=n, cases=FAMILIES[pid], params=dict(percase=14)), timeout=(300 if tier == "quick" else 3000))
        if rc != 0:
            hits += 1
            res.violation("sys-crash", "the process died during the workload: %s" % (out.strip().splitlines() or ["?"])[-1][:300],
                          dict(kind="sys", output=out[-3000:], last=recs[-1] if recs else None))
        mon = MONITORS[pid]
        for r in recs:
            vs = (mon_c11 if (pid == "C01" and r["family"] == "closures") else mon_c01 if (pid == "C09" and r["family"] == "conc") else (lambda rr: [v for v in mon_c11(rr) if "between plain" in v or "Mixed" in v]) if (pid == "C09" and r["family"] == "closures") else mon_framing if r["family"] == "framing" else (lambda rr: [v for v in mon_c13(rr) if "closure" in v]) if (pid in ("C11", "C10") and r["family"] == "hub") else mon_relay if r["family"] == "relay" else mon_nestedlink if r["family"] == "nestedlink" else mon)(r)
            if vs:
                hits += 1
                res.violation("sys-monitor:" + re.sub(r"\d+", "N", vs[0])[:50], "implementation violates %s: %s" % (pid, vs[0]),
                              dict(kind="sys", family=r["family"], config=r["config"], seed=r["seed"], all=vs[:10],
                                   calls=(r.get("calls") or [])[:30]))
    if pid == "C09":
        # the result of a call that did get its response survives a late cancellation of the call's context
        # (window-level: the context is cancelled after the waiter has taken the response, before the caller decodes it)
        calls = [dict(ctx=1, nres=2, closure=False, arg=10)]
        pre = [dict(run="setup"), dict(env="start", i=0), dict(run="call:0"), dict(run="waiter:0"), dict(env="deliver-res", id=0, v=100),
               dict(run="pub:0"), dict(run="pub:0")]
        cases = [dict(calls=calls, choices=pre + [dict(run="waiter:0"), dict(run="waiter:0"), dict(env="cancel", n=1), dict(run="call:0"), dict(run="call:0")]),
                 dict(calls=calls, choices=pre + [dict(run="waiter:0"), dict(env="cancel", n=1), dict(run="waiter:0"), dict(run="call:0"), dict(run="call:0")])]
        erecs, erc, eout = C.run_job(binary, wd, "latecancel", dict(family="ep-replay", seed=seed, cases=cases), timeout=300)
        for r in erecs:
            if "trace" not in r:
                continue
            rets = [e for e in (r["trace"][-1]["obs"]["events"] if r["trace"] else []) if e["k"] == "ret" and e["i"] == 0]
            if not rets:
                hits += 1
                res.violation("late-cancel", "a call whose response had been delivered did not return (context cancelled after the waiter took the response)", dict(kind="ep", calls=r["calls"], case=r.get("trace", [])[-1:]))
            elif rets[0].get("e", "") == "" and rets[0].get("v") != 100:
                hits += 1
                res.violation("late-cancel", "implementation violates C09: the response (value 100) had been taken by the call's waiter when the call's context was cancelled; the call returned (%s, nil): a nil error with another value than the handler's" % rets[0].get("v"),
                              dict(kind="ep", calls=r["calls"], choices=[st["c"] for st in r["trace"]]))
    model = MODEL_CHECKS.get(pid)
    nmodel = 0
    if model:
        nmodel = model(res, wd, recs, hits)
    if pid == "C02":
        # "slow handlers block nobody" on the mutex level: regenerated from the sources (go/ast), the critical
        # sections obey the discipline of Regions.v (no foreign code and no nested acquisition under a table lock; the
        # registry's lock only around hooks and the enumeration callback - the exclusion the property states)
        from . import regions
        regions.obligation(res, wd, hits)
    if getattr(res, "proof_broken", None):
        why, log = res.proof_broken
        res.violation("proof-broken", "proof obligations of %s no longer check: %s" % (pid, why),
                      dict(theorem_file="coq/theories/Props/%s.v" % pid, log=log), no_failing_input=(hits == 0))
    ncalls = sum(len(r.get("calls") or []) + len(r.get("frames") or []) + len(r.get("foreign") or []) for r in recs)
    distinct = set()
    dist = collections.Counter()
    for r in recs:
        dist[r["config"]] += 1
        for c in r.get("calls") or []:
            distinct.add((c["m"], c.get("arg", "")[:60], c.get("err", "")[:30], r["config"]))
            dist["m:" + c["m"]] += 1
        for f in r.get("frames") or []:
            distinct.add((f["dir"], f["gen"][:80]))
    res.coverage.update(
        evaluations=ncalls, distinct_nontrivial=len(distinct),
        rule="workloads on real registries linked over harness transports (message / stream with 1-byte, random and whole-frame chunking; JSON and CBOR, raw and byte-string payloads), "
             "generated from the seed; evaluations = calls (plus captured frames for C17); distinct = distinct (method, argument, outcome, configuration)",
        samples=[dict(family=r["family"], config=r["config"], seed=r["seed"], calls=(r.get("calls") or [])[:3]) for r in recs[:2]],
        traces_validated_against_impl=nmodel, records=len(recs), distribution=dict(dist), exhaustive=False, monitor_hits=hits, **extra)
    res.assumptions += ["serializers (encoding/json, fxamacker/cbor) are deterministic functions of (value, type): hypotheses of the theorems",
                        "transports deliver frames unchanged, at most once (reordering and delay allowed)"]


from . import wiretags, convcheck
MODEL_CHECKS = {"C17": wiretags.check, "C11": convcheck.check}
