"""Critical-section table: tools/regions (go/ast translator) -> work/<id>/RegionTable.v -> Regions.regions_ok.

The table is regenerated from the working tree of the repository under test on every run; the discipline
[regions_ok table = true] is evaluated by coqc (vm_compute).  Theorems about every table that satisfies it:
Props/C05.v no_mutex_deadlock, lock_order, leaf_sections_closed."""
import json, os, re, subprocess
from . import common as C

FILES = ["go/pkg/utils/broadcaster.go", "go/pkg/rpc/manager.go", "go/pkg/rpc/registry.go"]
MUTEX = {"lock": "(MLeaf 0)", "closuresLock": "(MLeaf 1)", "fatalErrLock": "(MLeaf 2)", "remotesLock": "MOuter"}


def extract():
    tool = os.path.join(C.VERIF, "tools", "regions")
    p = subprocess.run(["go1.26", "run", "."] + [os.path.join(C.REPO, f) for f in FILES], cwd=tool, env=C.GOENV,
                       stdout=subprocess.PIPE, stderr=subprocess.PIPE, text=True, timeout=600)
    if p.returncode != 0:
        raise C.CheckError("tools/regions failed on the sources: " + p.stderr[-2000:])
    return json.loads(p.stdout)


def site(r):
    fn = re.sub(r"@\d+", "", r["func"])
    if r["mutex"] != "remotesLock":
        return "SOther"
    return {"LinkMessage.go": "SSetup", "LinkMessage.go.defer": "STeardown", "ForRemotes": "SEnumerate"}.get(fn, "SOther")


def dclass(r, d):
    if re.fullmatch(r"(r\.)?hooks\.OnClient(Connect|Disconnect)", d):
        return "DHook"
    if d == "cb" and r["func"] == "ForRemotes":
        return "DCallback"
    return "DOther"


def bclass(r, b):
    return "BCondWaitOwn" if b == "Wait on " + r["mutex"] else "BOther"


def term(r):
    m = MUTEX.get(r["mutex"], "(MLeaf 9)")    # a mutex the models do not know: held to the rules of a leaf mutex
    return "mkRegion %s %s %s [%s] [%s] %d" % (m, site(r), "true" if r["deferred"] else "false",
                                               "; ".join(dclass(r, d) for d in r["dynamic"]), "; ".join(bclass(r, b) for b in r["blocking"]), len(r["inner"]))


def describe(r):
    out = []
    where = "%s:%d (%s), critical section of %s" % (r["file"], r["line"], re.sub(r"@\d+", "", r["func"]), r["mutex"])
    if r["inner"]:
        out.append("%s acquires %s inside" % (where, ", ".join(r["inner"])))
    leaf = r["mutex"] != "remotesLock"
    bad_dyn = [d for d in r["dynamic"] if leaf or dclass(r, d) == "DOther" or (dclass(r, d) == "DHook") != (site(r) in ("SSetup", "STeardown"))]
    if bad_dyn:
        out.append("%s runs code that is neither panrpc's nor the standard library's while the mutex is held: %s" % (where, ", ".join(bad_dyn)))
    bad_blk = [b for b in r["blocking"] if bclass(r, b) == "BOther" or not leaf]
    if bad_blk:
        out.append("%s can block while the mutex is held: %s" % (where, ", ".join(bad_blk)))
    if not leaf and site(r) == "SOther":
        out.append("%s: the registry's mutex is acquired outside link set-up, tear-down and the enumeration (a call made from an enumeration callback or a hook that reaches this code deadlocks on it)" % where)
    if not leaf and site(r) == "SEnumerate" and not r["deferred"]:
        out.append("%s: the enumeration does not release the registry's mutex by defer: a callback that panics (recovered by panrpc when a handler enumerates) leaves it locked for ever" % where)
    return out or [where + " violates the discipline"]


def obligation(res, wd, hits):
    """regenerated obligation: the discipline of Regions.v holds for the critical sections of the tree under test"""
    regs = extract()
    body = ("From Verif Require Import Base Regions.\nDefinition table : list region := [\n %s].\n"
            "Definition OK := Eval vm_compute in regions_ok table.\nPrint OK.\n"
            "Definition Bad := Eval vm_compute in flat_map (fun p => if region_ok (snd p) then [] else [fst p]) (combine (seq 0 (length table)) table).\nPrint Bad.\n"
            % ";\n ".join(term(r) for r in regs))
    ok, out = C.coq_eval(wd, "RegionTable", body)
    if not ok:
        raise C.CheckError("coqc failed on the critical-section table: " + out[-1500:])
    res.coverage["obligations"] = res.coverage.get("obligations", 0) + 1
    res.coverage["critical_sections"] = len(regs)
    m = re.search(r"Bad\s*=\s*(\[.*?\])\s*:", out, re.S)
    bad = [int(x) for x in re.findall(r"\d+", m.group(1))] if m else list(range(len(regs)))
    good = re.search(r"OK\s*=\s*true", out) is not None and not bad
    expected_mutexes = set(MUTEX) - set(r["mutex"] for r in regs)
    if good and not expected_mutexes:
        if res.coverage.get("discharged"):
            res.coverage["discharged"] += 1
        return True
    why = []
    for i in bad:
        why += describe(regs[i])
    for mname in sorted(expected_mutexes):
        why.append("no critical section of %s found: the translator no longer recognises how the tables are guarded" % mname)
    res.violation("critical-sections", "regenerated obligation regions_ok(table) = true fails (Props/C05.v no_mutex_deadlock, leaf_sections_closed no longer apply; the atomic steps of Link.v / Bcast.v are no longer justified): %s" % "; ".join(why[:4]),
                  dict(kind="regions", theorem="Props/C05.v no_mutex_deadlock / lock_order / leaf_sections_closed", obligation="Regions.regions_ok table = true",
                       offenders=[regs[i] for i in bad], table=regs), no_failing_input=(hits == 0))
    return False
