"""Translator: JSON wire names of Request / Response / Message and the `Args: []T{}` initialisation,
read from /repo's current sources -> work/C17/WireTags.v (regenerated obligation of C17)."""
import os, re
from . import common as C


def struct_tags(src, name):
    m = re.search(r"type\s+%s\s*\[[^\]]*\]\s*struct\s*\{(.*?)\n\}" % name, src, re.S)
    if not m:
        return None
    tags = {}
    for line in m.group(1).splitlines():
        mm = re.match(r"\s*(\w+)\s+[^`]+`([^`]*)`", line)
        if mm:
            j = re.search(r'json:"([^",]*)', mm.group(2))
            tags[mm.group(1)] = j.group(1) if j else mm.group(1)
        else:
            mm = re.match(r"\s*(\w+)\s+\S+\s*$", line)
            if mm:
                tags[mm.group(1)] = mm.group(1)   # no tag: encoding/json uses the Go field name
    return tags


def extract():
    msgs = open(os.path.join(C.REPO, "go/pkg/utils/messages.go")).read()
    reg = open(os.path.join(C.REPO, "go/pkg/rpc/registry.go")).read()
    req, res, env = struct_tags(msgs, "Request"), struct_tags(msgs, "Response"), struct_tags(reg, "Message")
    if not req or not res or not env:
        raise C.CheckError("wiretags: cannot find the Request/Response/Message struct declarations")
    m = re.search(r"cmd\s*:=\s*utils\.Request\[T\]\{(.*?)\}\n", reg, re.S)
    init_empty = bool(m and re.search(r"Args:\s*\[\]T\{\}", m.group(1)))
    return dict(call=req.get("Call", "?"), function=req.get("Function", "?"), args=req.get("Args", "?"),
                rcall=res.get("Call", "?"), value=res.get("Value", "?"), err=res.get("Err", "?"),
                request=env.get("Request", "?"), response=env.get("Response", "?"), init_empty=init_empty)


def check(res, wd, recs, hits):
    t = extract()
    q = lambda s: '"%s"' % s.replace('"', '""')
    body = ("From Coq Require Import String.\nFrom Verif Require Import Base Wire.\nOpen Scope string_scope.\n"
            "Definition extracted : tags := mkTags %s %s %s %s %s %s %s %s %s.\n"
            "Example tags_documented : extracted = documented.\nProof. reflexivity. Qed.\n"
            % (q(t["call"]), q(t["function"]), q(t["args"]), q(t["rcall"]), q(t["value"]), q(t["err"]), q(t["request"]),
               q(t["response"]), "true" if t["init_empty"] else "false"))
    ok, out = C.coq_eval(wd, "WireTags", body)
    res.coverage["obligations"] = res.coverage.get("obligations", 0) + 1
    res.coverage["extracted_tags"] = t
    if ok:
        if res.coverage.get("discharged"):
            res.coverage["discharged"] += 1
    else:
        res.violation("wiretags", "regenerated obligation tags_documented fails: the wire names extracted from the source %s are not the documented ones (call/function/args, call/value/err, request/response, args initialised to an empty array)" % t,
                      dict(kind="wiretags", extracted=t, theorem="WireTags.tags_documented (Props/C17.v shapes_follow_from_tags)", log=out[-1500:]),
                      no_failing_input=(hits == 0))
    return 1
