"""Window-level correspondence of one registry endpoint (LinkMessage vs raw peer) with Link.v."""
import collections, json, os, re
from . import common as C

LABELS = {"rpc.call.registered": 1, "rpc.call.selected": 2, "rpc.seterr.closed": 3, "rpc.waiter.start": 4,
          "rpc.waiter.woke": 5, "rpc.waiter.deposited": 6, "bc.publish.enter": 7, "bc.publish.found": 8,
          "bc.publish.sent": 9, "bc.publish.gaveup": 10, "rpc.req.start": 11, "rpc.handler.start": 12,
          "handler.gate": 13, "rpc.watcher.woke": 14, "rpc.link.beforeread": 15, "rpc.link.return": 16,
          "rpc.setup.start": 17, "rpc.setup.waited": 18}

FN = {"echo": "FEcho", "notify": "FNotify", "gated": "FGated", "panic": "FPanic", "unknown": "FUnknown",
      "badargc": "FBadArgc", "badarg": "FBadArg"}
FCODE = {"echo": 1, "notify": 2, "fail": 3, "notifyerr": 4, "gated": 5, "panic": 6}


def lst(xs):
    return "[" + "; ".join(xs) + "]"


def tname(n):
    if n in ("watcher", "link", "setup"):
        return {"watcher": "TWatcher", "link": "TLink", "setup": "TSetup"}[n]
    if n == "reqloop":
        return "TReqLoop"
    if n == "resloop":
        return "TResLoop"
    m = re.match(r"(call|waiter|pub|req|handler):(\d+)$", n)
    if not m:
        return None
    return "(%s %s)" % ({"call": "TCall", "waiter": "TWaiter", "pub": "TPub", "req": "TReq", "handler": "THandler"}[m.group(1)], m.group(2))


def errclass(txt):
    if txt == "":
        return 0
    if txt in ("context canceled", "context deadline exceeded"):
        return 1
    if txt == "closed":
        return 2
    m = re.match(r"inj(\d+)$", txt)
    if m:
        return 10 + int(m.group(1))
    m = re.match(r"m(\d+)$", txt)
    if m:
        return 100 + int(m.group(1))
    if "can not call non function" in txt:
        return 3
    if "invalid argument count" in txt:
        return 4
    if "cannot unmarshal" in txt:
        return 5
    if "unexpected end of JSON" in txt or "invalid character" in txt:
        return 6
    if txt == "boom":
        return 7
    return 99


def msgnum(txt):
    if txt == "":
        return 0
    m = re.match(r"m(\d+)$", txt)
    return int(m.group(1)) if m else 99


def ev_tuple(e):
    k = e["k"]
    if k == "reqw":
        return (1, e["i"], e["v"], 1 if e.get("b") else 0)
    if k == "resw":
        return (2, e["i"], e["v"], msgnum(e.get("e", "")))
    if k == "inv":
        return (3, e["i"], e["v"], FCODE.get(e.get("f", ""), 99))
    if k == "ret":
        return (4, e["i"], e["v"], errclass(e.get("e", "")))
    if k == "report":
        return (5, 0, 0, errclass(e.get("e", "")))
    if k == "linkret":
        return (6, 0, 0, errclass(e.get("e", "")))
    if k == "hook":
        return (7, 1 if e.get("b") else 0, 0, 1 if e.get("b2") else 0)
    return (99, 0, 0, 0)


def choice_coq(c):
    if c.get("run"):
        t = tname(c["run"])
        return None if t is None else "Run %s" % t
    e = c["env"]
    opt = lambda m: "None" if not m else "(Some %d%%N)" % m
    if e == "start":
        return "Env (EStart %d)" % c.get("i", 0)
    if e == "deliver-res":
        return "Env (EDeliverRes %d%%N %d%%N %s)" % (c.get("id", 0), c.get("v", 0), opt(c.get("e", 0)))
    if e == "bad-res":
        return "Env EBadRes"
    if e == "fail-res":
        return "Env (EFailReadRes %d%%N)" % c.get("n", 0)
    if e == "deliver-req":
        f = c["f"]
        if f == "fail":
            fk = "(FFail %d%%N)" % c.get("e", 0)
        elif f == "notifyerr":
            fk = "(FNotifyErr %d%%N)" % c.get("e", 0)
        else:
            fk = FN[f]
        return "Env (EDeliverReq %s %d%%N)" % (fk, c.get("v", 0))
    if e == "bad-req":
        return "Env EBadReq"
    if e == "fail-req":
        return "Env (EFailReadReq %d%%N)" % c.get("n", 0)
    if e == "cancel":
        return "Env (ECancel %d%%N)" % c.get("n", 0)
    if e == "arm":
        return "Env (EArm %d %d%%N)" % (c.get("w", 0), c.get("n", 0))
    return None


def status_coq(st):
    if st == "blocked":
        return "LBlocked"
    if st == "done":
        return "LDone"
    if st.startswith("@"):
        n = LABELS.get(st[1:])
        return None if n is None else "LParked %d" % n
    return None


def obs_coq(o):
    ths = []
    for name, st in sorted(o["threads"].items()):
        t, s = tname(name), status_coq(st)
        if t is None or s is None:
            return None
        ths.append("(%s, %s)" % (t, s))
    evs = []
    for e in o["events"]:
        a, b, c, d = ev_tuple(e)
        if b < 0 or c < 0:
            return None
        evs.append("(%d, %d, %d%%N, %d)" % (a, b, c, d))
    return "mkOO %s %s %d %s %d %d" % (lst(ths), lst(evs), o["pending"], "true" if o["bclosed"] else "false",
                                       o["closures"], o["remotes"])


def case_coq(rec):
    calls = lst("mkCall %d%%N %d %s %d%%N" % (c.get("ctx", 0), c.get("nres", 1), "true" if c.get("closure") else "false", c.get("arg", 0))
                for c in rec["calls"] or [])
    steps = []
    for st in rec["trace"] or []:
        c, o = choice_coq(st["c"]), obs_coq(st["obs"])
        if c is None or o is None:
            return None
        steps.append("(%s, %s)" % (c, o))
    return "(%s, %s)" % (calls, lst(steps).replace("); (", ");\n  ("))


def eval_cases(wd, name, recs, variant="fixed", shard=150):
    terms, idx, untranslatable = [], [], []
    for i, r in enumerate(recs):
        t = case_coq(r)
        if t is None:
            untranslatable.append(i)
            continue
        terms.append(t)
        idx.append(i)
    out = []
    for s0 in range(0, len(terms), shard):
        body = ("From Verif Require Import Base Link LinkCheck.\n"
                "Definition cases : list (list callspec * list (choice * oobs)) :=\n " + lst(terms[s0:s0 + shard]).replace("); ([", ");\n ([") + ".\n"
                "Definition M := Eval vm_compute in lmismatches %s cases.\nPrint M.\n" % variant)
        ok, o = C.coq_eval(wd, "%s_%d" % (name, s0 // shard), body)
        if not ok:
            raise C.CheckError("coqc failed on generated endpoint cases: " + o[-2000:])
        m = re.search(r"M\s*=\s*(\[.*?\])\s*:", o, re.S)
        if not m:
            raise C.CheckError("cannot parse coqc output: " + o[-1000:])
        for a, b in re.findall(r"\((\d+),\s*(\d+)\)", m.group(1)):
            out.append((idx[s0 + int(a)], int(b)))
    return out, len(terms), untranslatable


def predict(wd, rec, step, variant="fixed"):
    """Model-side prediction at a mismatching step (diagnostics for the replay file)."""
    t = case_coq(rec)
    if t is None:
        return None
    body = ("From Verif Require Import Base Link LinkCheck.\nDefinition c : list callspec * list (choice * oobs) := %s.\n"
            "Definition P := Eval vm_compute in lpredict %s (fst c) (snd c) %d.\nPrint P.\n" % (t, variant, step))
    ok, o = C.coq_eval(wd, "predict", body)
    return o[-3000:]
