"""C19 (and the Broadcaster part of C05): window-level correspondence of utils.Broadcaster with Bcast.v."""
import collections, json, os, re
from . import common as C


def op_coq(op):
    o = op["op"]
    if o == "pub":
        return "Publish %d%%N %d%%N" % (op.get("k", 0), op.get("v", 0))
    if o == "recv":
        return "Receive %d%%N %d%%N" % (op.get("k", 0), op.get("c", 0))
    if o == "run":
        return "RunRecv %d" % op.get("h", 0)
    if o == "free":
        return "Free %d%%N" % op.get("k", 0)
    if o == "close":
        return "Close"
    if o == "cancel":
        return "Cancel %d%%N" % op.get("c", 0)
    raise ValueError(o)


RES = {"pub:sent": "RPubSent", "pub:gaveup": "RPubGaveUp", "pub:none": "RPubNone", "reg:true": "RReg true",
       "reg:false": "RReg false", "recv:ctx": "RRecv CtxErr", "recv:closed": "RRecv ErrClosed",
       "recv:nohandle": "RRecv NoHandle", "unit": "RUnit"}


def res_coq(r):
    if r in RES:
        return RES[r]
    m = re.match(r"recv:got:(\d+)$", r)
    if m:
        return "RRecv (Got %s%%N)" % m.group(1)
    return None


def lst(xs):
    return "[" + "; ".join(xs) + "]"


def case_coq(rec):
    """Coq term for (progs, trace); None if the record contains something the model has no word for."""
    progs = lst(lst(op_coq(o) for o in (p or [])) for p in rec["progs"])
    steps = []
    for st in rec["trace"]:
        ths = []
        for th in st["obs"]["threads"]:
            status = {"gate": "SGate %d" % th["n"], "found": "SFound", "blocked": "SBlocked"}[th["st"]]
            rs = [res_coq(r) for r in th["res"]]
            if any(r is None for r in rs):
                return None
            ths.append("(%s, %s)" % (status, lst(rs)))
        steps.append("(%d, (%s, %s))" % (st["t"], "true" if st["obs"]["crashed"] else "false", lst(ths)))
    return "(%s, %s)" % (progs, lst(steps))


def eval_cases(wd, name, recs, variant="fixed"):
    """Returns list of (case index, step index) the model cannot follow; raises on Coq failure."""
    terms, idx = [], []
    for i, r in enumerate(recs):
        t = case_coq(r)
        if t is None:
            continue
        terms.append(t)
        idx.append(i)
    out_mism = []
    SH = 400
    for s0 in range(0, len(terms), SH):
        body = ("From Verif Require Import Base Bcast BcastCheck.\n"
                "Definition cases : list (list (list bop) * list (nat * obs)) :=\n " + lst(terms[s0:s0 + SH]).replace("; (", ";\n (") + ".\n"
                "Definition M := Eval vm_compute in mismatches %s cases.\nPrint M.\n" % variant)
        ok, out = C.coq_eval(wd, "%s_%d" % (name, s0 // SH), body)
        if not ok:
            raise C.CheckError("coqc failed on generated cases: " + out[-2000:])
        m = re.search(r"M\s*=\s*(\[.*?\])\s*:", out, re.S)
        if not m:
            raise C.CheckError("cannot parse coqc output: " + out[-1000:])
        for a, b in re.findall(r"\((\d+),\s*(\d+)\)", m.group(1)):
            out_mism.append((idx[s0 + int(a)], int(b)))
    return out_mism, len(terms)


def schedule_of(rec):
    return [s["t"] for s in rec["trace"]]


def signature(rec):
    """Distinctness / non-triviality of a trace: the sequence of status vectors + result kinds."""
    sig = []
    for st in rec["trace"]:
        sig.append(tuple((t["st"], tuple(r.split(":")[0] + ":" + r.split(":")[1] if ":" in r else r for r in t["res"]))
                         for t in st["obs"]["threads"]))
    return tuple(sig)


def nontrivial(rec):
    """A trace is non-trivial when some thread was parked inside Publish (window) or blocked, or a
    value was handed over / an error path taken."""
    for st in rec["trace"]:
        for t in st["obs"]["threads"]:
            if t["st"] in ("found", "blocked"):
                return True
            if any(r.startswith(("recv:got", "recv:closed", "recv:ctx", "pub:gaveup", "pub:sent")) for r in t["res"]):
                return True
    return False


def load_corpus(name):
    d = os.path.join(C.VERIF, "corpus", name)
    cases = []
    if os.path.isdir(d):
        for f in sorted(os.listdir(d)):
            if f.endswith(".json"):
                cases.append(json.load(open(os.path.join(d, f))))
    return cases


def run_families(res, pid, tier, seed, wd, binary):
    """Runs corpus + random (+ exhaustive) Broadcaster scenarios; returns records."""
    recs = []
    stats = collections.Counter()
    corpus = load_corpus("bcast")
    jobs = [("corpus", dict(family="bcast-replay", seed=seed, cases=[dict(progs=c["progs"], schedule=c["schedule"]) for c in corpus]))]
    if tier == "quick":
        jobs.append(("random", dict(family="bcast-random", seed=seed, n=1500, params=dict(maxops=8))))
        jobs.append(("explore", dict(family="bcast-explore", seed=seed + 1, n=12, params=dict(maxops=5, limit=150))))
    else:
        jobs.append(("random", dict(family="bcast-random", seed=seed, n=12000, params=dict(maxops=9))))
        jobs.append(("explore", dict(family="bcast-explore", seed=seed + 1, n=120, params=dict(maxops=6, limit=400))))
    complete = total_expl = 0
    for name, job in jobs:
        rs, rc, out = C.run_job(binary, wd, name, job)
        for r in rs:
            if "explored" in r:
                total_expl += 1
                complete += 1 if r["complete"] else 0
                continue
            r["_family"] = name
            recs.append(r)
        mh = re.search(r"HANG-CASE (.*?) ESAC-GNAH", out, re.S)
        if rc != 0 and mh:
            # one case did not finish: operations stuck inside the Broadcaster (e.g. on its mutex)
            try:
                hc = json.loads(mh.group(1))
            except Exception:
                hc = dict(raw=mh.group(1)[:2000])
            res.violation("bcast-deadlock:" + name,
                          "implementation violates C19: these client operations never finish (an operation is stuck inside the Broadcaster, e.g. on its mutex): %s" % json.dumps(hc.get("progs"))[:300],
                          dict(kind="bcast-deadlock", family=name, case=hc))
            stats[name] = len(rs)
            break
        if rc != 0:
            # the child died: a panic outside the client threads, a stuck goroutine or a timeout
            tail = out[-3000:]
            last = recs[-1] if recs else None
            res.violation("bcast-child-died:" + name,
                          "harness child process died (rc=%s) in family %s: %s" % (rc, name, tail.strip().splitlines()[-1] if tail.strip() else ""),
                          dict(family=name, job=job, output=tail, last_completed_case=last))
        stats[name] = len(rs)
    res.coverage["explore_programs"] = total_expl
    res.coverage["explore_programs_complete"] = complete
    return recs, stats


def check(res, tier, seed):
    pid = res.pid
    wd = C.workdir(pid)
    C.proof_obligations(res, pid, wd)
    binary = C.build_harness(wd)
    recs, stats = run_families(res, pid, tier, seed, wd, binary)
    # implementation-side monitors
    monitor_hits = 0
    for r in recs:
        if r.get("violates"):
            monitor_hits += 1
            res.violation("bcast-monitor:" + r["violates"].split(":")[0][:40], "implementation violates C19 on a concrete schedule: " + r["violates"],
                          dict(kind="bcast", progs=r["progs"], schedule=schedule_of(r), trace=r["trace"], panic=r.get("panic")))
    # real-scheduler stress of windows that have no yield point (search only)
    srecs, src, sout = C.run_job(binary, wd, "stress", dict(family="bcast-stress", seed=seed, n=(60000 if tier == "quick" else 1500000), params=dict(budget_s=(40 if tier == "quick" else 150))), timeout=900)
    for sr in srecs:
        res.coverage["stress_iterations"] = sr.get("iterations")
        res.coverage["stress_outcomes"] = sr.get("kinds")
        if sr.get("violates"):
            monitor_hits += 1
            res.violation("bcast-stress", "implementation violates C19 under the real scheduler: " + sr["violates"], dict(kind="bcast-stress", result=sr))
    if src != 0:
        monitor_hits += 1
        hang = next((l for l in sout.splitlines() if l.startswith("STRESSHANG")), None)
        if hang:
            res.violation("bcast-stress-hang", "implementation violates C19 under the real scheduler: " + hang[len("STRESSHANG "):], dict(kind="bcast-stress", output=sout[-3000:]))
        else:
            res.violation("bcast-stress-died", "the Broadcaster stress run died: %s" % (sout.strip().splitlines() or ["?"])[-1][:300], dict(output=sout[-3000:]))
    # correspondence with the model (kernel evaluation)
    mism, ncoq = eval_cases(wd, "cases", recs)
    for ci, step in mism:
        r = recs[ci]
        if r.get("violates"):
            continue  # already reported with a concrete failing schedule
        res.violation("bcast-correspondence", "Bcast.v (fixed) cannot follow the implementation at step %d of a schedule: correspondence Bcast.bstep <-> broadcaster.go no longer checks" % step,
                      dict(kind="bcast", correspondence="BcastCheck.consistent fixed", theorems=res.coverage.get("theorems"),
                           progs=r["progs"], schedule=schedule_of(r), first_mismatching_step=step,
                           observed=r["trace"][step] if step < len(r["trace"]) else None),
                      no_failing_input=(monitor_hits == 0))
    from . import locksets
    locksets.atomicity_obligation(res, monitor_hits)
    from . import regions
    regions.obligation(res, wd, monitor_hits)
    if getattr(res, "proof_broken", None):
        why, log = res.proof_broken
        res.violation("proof-broken", "proof obligations of %s no longer check: %s" % (pid, why),
                      dict(theorem_file="coq/theories/Props/%s.v" % pid, log=log), no_failing_input=(monitor_hits == 0))
    sigs = set(signature(r) for r in recs if nontrivial(r))
    dist = collections.Counter()
    for r in recs:
        dist["len=%d" % len(r["trace"])] += 1
        dist["threads=%d" % len(r["progs"])] += 1
        if r["trace"]:
            for t in r["trace"][-1]["obs"]["threads"]:
                for x in t["res"]:
                    dist[":".join(x.split(":")[:2])] += 1
        for st in r["trace"]:
            for t in st["obs"]["threads"]:
                if t["st"] != "gate":
                    dist["status:" + t["st"]] += 1
    res.coverage.update(
        evaluations=len(recs), distinct_nontrivial=len(sigs),
        rule="each case = (client programs over 1-2 keys and contexts, schedule); generated structured (75%: receivers+publishers per key+disruptors) or uniformly random, "
             "plus corpus, plus exhaustive schedule enumeration of small programs; distinct = distinct sequence of per-thread (status, result kinds) vectors; "
             "non-trivial = some thread parked in the Publish window or blocked in a select, or a value/err outcome occurred",
        samples=[dict(progs=r["progs"], schedule=schedule_of(r), final=r["trace"][-1]["obs"] if r["trace"] else None) for r in recs[:2] + recs[-1:]],
        traces_validated_against_impl=ncoq, families=dict(stats), distribution=dict(dist),
        exhaustive=False, monitor_hits=monitor_hits, correspondence_mismatches=len(mism))
    res.assumptions += ["select picks uniformly among ready cases; a parked select is woken by the first event (GoRt rules in Bcast.v)",
                        "the shadow monitor and the model are both written by hand; their agreement with the code is checked, not proved"]
