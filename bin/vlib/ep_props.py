"""Checks that share the endpoint (window-level) scenarios: C03 C04 C05 C12 C14 C15 C16."""
import collections, json, os, re
from . import common as C
from . import ep

ENDING_ENV = {"bad-res", "fail-res", "bad-req", "fail-req", "arm"}
ENDING_FN = {"panic", "unknown", "badargc", "badarg"}


def choices_of(rec):
    return [st["c"] for st in rec["trace"] or []]


class Facts:
    def __init__(self, rec):
        self.rec = rec
        self.calls = rec["calls"] or []
        self.trace = rec["trace"] or []
        self.started = {}      # i -> step
        self.deliveries = collections.defaultdict(list)   # i -> [(step, v, e)]
        self.cancel_step = {}  # ctx -> step
        self.ending_actions = False
        self.armed = {}        # error text of an injected fault -> the points it was armed for (0 write request, 1 write response, 2 marshal, 3 unmarshal)
        self.first_report = None   # (step, text)
        self.reports = []          # every report (step, text)
        self.bclosed_step = None
        self.ret = {}          # i -> (step, v, e)
        self.linkret = None
        seen_ev = 0
        for k, st in enumerate(self.trace):
            c = st["c"]
            env = c.get("env")
            if env == "start":
                self.started[c.get("i", 0)] = k
            elif env == "deliver-res":
                self.deliveries[c.get("id", 0)].append((k, c.get("v", 0), c.get("e", 0)))
            elif env == "cancel":
                self.cancel_step[c.get("n", 0)] = k
                if c.get("n", 0) == 0:
                    self.ending_actions = True
            elif env in ENDING_ENV:
                self.ending_actions = True
                if env == "arm":
                    self.armed.setdefault("inj%d" % c.get("n", 0), set()).add(c.get("w", 0))
            elif env == "deliver-req" and c.get("f") in ENDING_FN:
                self.ending_actions = True
            evs = st["obs"]["events"]
            for e in evs[seen_ev:]:
                if e["k"] == "report":
                    self.reports.append((k, e.get("e", "")))
                if e["k"] == "report" and self.first_report is None:
                    self.first_report = (k, e.get("e", ""))
                if e["k"] == "ret" and e["i"] not in self.ret:
                    self.ret[e["i"]] = (k, e["v"], e.get("e", ""))
                if e["k"] == "linkret" and self.linkret is None:
                    self.linkret = (k, e.get("e", ""))
            seen_ev = len(evs)
            if st["obs"]["bclosed"] and self.bclosed_step is None:
                self.bclosed_step = k
        self.last = self.trace[-1]["obs"] if self.trace else None
        self.quiescent = bool(self.last) and not any(s.startswith("@") for s in self.last["threads"].values())
        self.ended = self.first_report is not None or self.bclosed_step is not None

    def ctx_cancelled(self, i):
        c = self.calls[i].get("ctx", 0)
        return c in self.cancel_step


def mon_c03(f):
    out = []
    for i, (k, v, e) in f.ret.items():
        spec = f.calls[i]
        if e == "":
            ok = any(dk < k and de == 0 and (spec.get("nres", 1) == 1 or dv == v) for dk, dv, de in f.deliveries.get(i, []))
            if not ok:
                out.append("call %d returned a nil error (value %d) although no genuine error-free response for it had been received" % (i, v))
        m = re.match(r"m(\d+)$", e)
        if m and not any(dk < k and de == int(m.group(1)) for dk, dv, de in f.deliveries.get(i, [])):
            out.append("call %d returned application error %s that no response carried" % (i, e))
        if e != "" and not m and v != 0:
            out.append("call %d returned error %r with a non-zero value %d" % (i, e, v))
    if f.quiescent:
        for i, k in f.started.items():
            if i in f.ret:
                continue
            if f.ended:
                out.append("call %d is still blocked at quiescence although the link has ended (hang)" % i)
    # calls started on an ended link fail fast, writing nothing
    for i, k in f.started.items():
        if f.bclosed_step is not None and f.bclosed_step < k:
            for e in (f.last or {"events": []})["events"]:
                if e["k"] == "reqw" and e["i"] == i:
                    out.append("call %d was started after the link had ended but still wrote a request" % i)
            if f.quiescent and i in f.ret and f.ret[i][2] == "":
                out.append("call %d made after the link ended returned a nil error" % i)
    return out


def mon_c04(f):
    out = []
    if f.quiescent:
        for i, k in f.started.items():
            if not f.ctx_cancelled(i) or f.calls[i].get("ctx", 0) == 0:
                continue
            cstep = f.cancel_step[f.calls[i]["ctx"]]
            if i not in f.ret:
                out.append("call %d did not return although its context was cancelled (step %d)" % (i, cstep))
                continue
            rk, v, e = f.ret[i]
            delivered = bool(f.deliveries.get(i))
            if e in ("context canceled", "context deadline exceeded"):
                if v != 0:
                    out.append("cancelled call %d returned a non-zero value %d" % (i, v))
            elif not delivered and not f.ended:
                out.append("cancelled call %d returned %r instead of the context's error" % (i, e))
            elif e == "" and f.calls[i].get("nres", 1) == 2 and not any(de == 0 and dv == v for dk, dv, de in f.deliveries.get(i, [])):
                out.append("cancelled call %d returned (%s, nil): a nil error with a value that is not the value of a response delivered for it %s - neither its result nor the context's error" % (i, v, [(dv, de) for dk, dv, de in f.deliveries.get(i, [])]))
    if not f.ending_actions:
        if f.first_report is not None:
            out.append("the link ended (%r) although only per-call contexts were cancelled and no fault was injected" % (f.first_report[1],))
        if f.linkret is not None:
            out.append("Link returned (%r) although the link is healthy" % (f.linkret[1],))
        if f.quiescent:
            for i, k in f.started.items():
                if f.ctx_cancelled(i) and f.calls[i].get("ctx", 0) != 0:
                    continue
                ds = f.deliveries.get(i, [])
                if ds and i not in f.ret:
                    out.append("call %d (not cancelled) never returned although its response was delivered on a healthy link" % i)
                if ds and i in f.ret:
                    rk, v, e = f.ret[i]
                    if not any((e == "" and de == 0 or e == "m%d" % de) for dk, dv, de in ds):
                        out.append("call %d (not cancelled) returned %r, not its response, on a healthy link" % (i, e))
    return out


def mon_c05(f):
    out = []
    if f.quiescent:
        for name, st in f.last["threads"].items():
            if name.startswith("pub:") and st == "blocked":
                out.append("publisher %s is blocked at quiescence (deadlocked hand-off)" % name)
            if name.startswith("waiter:") and st == "blocked":
                i = int(name.split(":")[1])
                if f.last["threads"].get("call:%d" % i) == "done":
                    out.append("waiter %s is blocked at quiescence although its call returned" % name)
    return out


def mon_c12(f):
    out = []
    for k, st in enumerate(f.trace):
        o = st["obs"]
        inflight = 0
        for i, sk in f.started.items():
            if sk <= k and f.calls[i].get("closure") and o["threads"].get("call:%d" % i) != "done":
                inflight += 1
        if o["closures"] > inflight:
            out.append("step %d: %d closures registered but only %d closure-passing calls in flight" % (k, o["closures"], inflight))
            break
    fin = f.rec.get("final")
    if fin and fin["closures"] != 0:
        out.append("%d closure registrations remain after all calls ended" % fin["closures"])
    return out


def mon_c14(f):
    out = []
    want = [(True, False), (True, True), (False, False), (False, True)]
    for k, st in enumerate(f.trace + ([{"c": {"env": "teardown"}, "obs": f.rec["final"]}] if f.rec.get("final") else [])):
        o = st["obs"]
        hooks = [(bool(e.get("b")), bool(e.get("b2"))) for e in o["events"] if e["k"] == "hook"]
        if hooks != want[:len(hooks)]:
            out.append("step %d: hook notifications %s are not a prefix of connect(registry), connect(link), disconnect(registry), disconnect(link)" % (k, hooks))
            break
        connected = len(hooks) >= 1
        disconnected = len(hooks) >= 3
        if len(hooks) in (1, 3):
            out.append("step %d: registry-wide and per-link hook notifications are not paired (%s)" % (k, hooks))
            break
        if o["remotes"] != (1 if connected and not disconnected else 0):
            out.append("step %d: %d remotes enumerated but connected=%s disconnected=%s" % (k, o["remotes"], connected, disconnected))
            break
        if disconnected and not (o["threads"].get("reqloop") == "done" and o["threads"].get("resloop") == "done"):
            out.append("step %d: disconnect notified before both reader loops returned" % k)
            break
        first_inv = next((n for n, e in enumerate(o["events"]) if e["k"] == "inv"), None)
        first_conn = next((n for n, e in enumerate(o["events"]) if e["k"] == "hook"), None)
        if first_inv is not None and (first_conn is None or first_conn > first_inv):
            out.append("step %d: a request was handled before the connect notification" % k)
            break
    fin = f.rec.get("final")
    if fin:
        hooks = [e for e in fin["events"] if e["k"] == "hook"]
        ran_setup = any(st["c"].get("run") == "setup" for st in f.trace)
        if ran_setup and len(hooks) != 4:
            out.append("after teardown %d hook notifications were seen, expected 4 (one connect and one disconnect for registry and link)" % len(hooks))
    fin0 = f.rec.get("final0")
    if fin0 and any(st["c"].get("run") == "setup" for st in f.trace):
        # the link has ended and its reads have returned; some handlers are still inside application code
        inapp = sorted(n for n, s in fin0["threads"].items() if s == "@handler.gate")
        hooks0 = [e for e in fin0["events"] if e["k"] == "hook"]
        if len(hooks0) != 4:
            out.append("the link has ended and both reads have returned, but only %d of the 4 hook notifications were made: the disconnect notification waits for the handlers %s that are still inside application code" % (len(hooks0), inapp))
        elif fin0["remotes"] != 0:
            out.append("the link has ended and both reads have returned, but %d remote(s) are still enumerated (handlers %s still inside application code)" % (fin0["remotes"], inapp))
    return out


def mon_c15(f):
    out = writes_after_cancel(f)
    fin0 = f.rec.get("final0")
    if fin0:
        # the link has ended, its context is cancelled, its reads fail; some handlers are still inside application code
        alive = {n: s for n, s in fin0["threads"].items() if s not in ("done", "@handler.gate")}
        inapp = sorted(n for n, s in fin0["threads"].items() if s == "@handler.gate")
        if alive:
            out.append("after teardown (handlers %s still inside application code) these goroutines have not exited: %s" % (inapp, alive))
        if fin0["pending"] != 0:
            out.append("after teardown (handlers %s still inside application code) %d pending-call entries remain" % (inapp, fin0["pending"]))
        if fin0["closures"] != 0:
            out.append("after teardown (handlers %s still inside application code) %d closure registrations remain" % (inapp, fin0["closures"]))
        if fin0["remotes"] != 0:
            out.append("after teardown the remote is still enumerated while handlers %s are still inside application code (the link has ended, its transport reads have returned)" % inapp)
    fin = f.rec.get("final")
    if fin:
        alive = {n: s for n, s in fin["threads"].items() if s != "done"}
        if alive:
            out.append("after teardown these goroutines have not exited: %s" % alive)
        if fin["pending"] != 0:
            out.append("after teardown %d pending-call entries remain" % fin["pending"])
        if fin["closures"] != 0:
            out.append("after teardown %d closure registrations remain" % fin["closures"])
        if fin["remotes"] != 0:
            out.append("after teardown the remote is still enumerated")
    if f.rec.get("leaked"):
        out.append("goroutines leaked: %s" % f.rec["leaked"])
    return out


def writes_after_cancel(f):
    """frames handed to the transport at a step after the link context was cancelled (both write paths look at the
    context first, so there are none): a transport whose writes block then holds that goroutine for ever"""
    k0 = f.cancel_step.get(0)
    if k0 is None:
        return []
    seen = len(f.trace[k0]["obs"]["events"])
    for k in range(k0 + 1, len(f.trace)):
        evs = f.trace[k]["obs"]["events"]
        for e in evs[seen:]:
            if e["k"] in ("resw", "reqw"):
                return ["step %d: the link context had been cancelled at step %d, yet a %s frame is handed to the transport afterwards (%s): with a transport whose writes block once the peer is gone, this goroutine of panrpc never exits" % (
                    k, k0, "response" if e["k"] == "resw" else "request", (e.get("raw") or "")[:80])]
        seen = len(evs)
    return []


def mon_c16(f):
    out = []
    # a reader whose read / decode failed reports at once: it does not wait for handlers or anything else
    for k, st in enumerate(f.trace):
        env = st["c"].get("env")
        loop = {"fail-res": "resloop", "bad-res": "resloop", "fail-req": "reqloop", "bad-req": "reqloop"}.get(env)
        if loop and st["obs"]["threads"].get(loop) != "@rpc.seterr.closed":
            out.append("step %d: the %s got a failing read but did not report it at once (it is %r): Link cannot return promptly" % (k, loop, st["obs"]["threads"].get(loop)))
            break
    if not f.ending_actions and f.linkret is not None:
        out.append("Link returned (%r) although the link is healthy: only per-call contexts were cancelled and no fault was injected" % (f.linkret[1],))
    if not f.ending_actions and f.first_report is not None:
        out.append("a fatal error was reported (%r) on a healthy link: only per-call contexts were cancelled and no fault was injected" % (f.first_report[1],))
    if f.linkret is not None:
        if f.first_report is None or f.first_report[0] > f.linkret[0]:
            out.append("Link returned %r while the link was healthy (no fatal error had been reported)" % (f.linkret[1],))
        elif f.linkret[1] != f.first_report[1]:
            out.append("Link returned %r but the first fatal error was %r" % (f.linkret[1], f.first_report[1]))
        if f.linkret[1] == "":
            out.append("Link returned a nil error")
        if f.linkret[1] == "closed":
            # the harness never injects a failure with this text: it can only be utils.ErrClosed of a call that was made
            # on the already ended link - a consequence of the failure that ended the link, not that failure
            out.append("Link returned 'closed' (the consequential error of a call made on the already ended link) instead of the failure that ended the link (%s)" % ", ".join(sorted(set(r[1] for r in f.reports if r[1] != "closed"))) )
    if f.quiescent and f.first_report is not None and f.linkret is None:
        out.append("the link ended (%r) but Link has not returned at quiescence" % (f.first_report[1],))
    # once the link context is cancelled nothing is handed to the transport any more (both write paths look at the
    # context first), so a fault armed for a transport write cannot fire afterwards and become the reported error
    k0 = f.cancel_step.get(0)
    if k0 is not None and (f.bclosed_step is None or f.bclosed_step >= k0) and f.first_report is not None and f.first_report[0] > k0:
        pts = f.armed.get(f.first_report[1], set())
        if pts and pts <= {0, 1}:
            out.append("step %d: the link context had been cancelled at step %d while the link was still up, yet a frame was handed to the transport afterwards and ITS failure %r became the first reported error: Link returns a consequential error instead of the context's" % (f.first_report[0], k0, f.first_report[1]))
    return out


MONITORS = {"C03": mon_c03, "C04": mon_c04, "C05": mon_c05, "C12": mon_c12, "C14": mon_c14, "C15": mon_c15, "C16": mon_c16}


def load_corpus():
    d = os.path.join(C.VERIF, "corpus", "ep")
    cases = []
    if os.path.isdir(d):
        for fn in sorted(os.listdir(d)):
            if fn.endswith(".json"):
                c = json.load(open(os.path.join(d, fn)))
                c["_name"] = fn
                cases.append(c)
    return cases


def run_ep_job(binary, wd, name, job, res):
    """Runs a job; when the child dies (panic / leak) records it and resumes after the failing case."""
    recs = []
    offset = 0
    n = job.get("n", 0)
    deaths = []
    for attempt in range(12):
        j = dict(job)
        j["params"] = dict(job.get("params", {}), offset=offset)
        rs, rc, out = C.run_job(binary, wd, "%s_%d" % (name, attempt), j)
        last_index = None
        for r in rs:
            if "index" in r and len(r) == 1:
                last_index = r["index"]
            else:
                recs.append(r)
        if rc == 0:
            break
        m = re.search(r"LEAK (\{.*?\}) KAEL", out, re.S)
        info = dict(rc=rc, index=last_index, tail=out[-2500:])
        if "EPHANG" in out:
            info["hang"] = True
        if m:
            try:
                info["leak"] = json.loads(m.group(1))
            except Exception:
                pass
        deaths.append(info)
        if last_index is None or (job["family"] != "ep-random" and not info.get("hang")):
            break
        if sum(1 for d in deaths if d.get("hang")) >= 2:
            break       # goroutines stuck inside panrpc in scenario after scenario: no point in going on
        offset = last_index + 1
        if offset >= n:
            break
    return recs, deaths


def signature(rec):
    sig = []
    for st in rec["trace"] or []:
        c = st["c"]
        sig.append((c.get("run", "").split(":")[0], c.get("env", ""), tuple(sorted(set(st["obs"]["threads"].values())))))
    return tuple(sig)


def nontrivial(rec):
    """non-trivial: at least one call in flight concurrently with a fault, cancel, late/duplicate
    response or a second call (i.e. something beyond a single request/response exchange)."""
    tr = rec["trace"] or []
    kinds = set(st["c"].get("env") for st in tr if st["c"].get("env"))
    nstart = sum(1 for st in tr if st["c"].get("env") == "start")
    return len(tr) >= 8 and (nstart >= 2 or kinds & {"cancel", "arm", "bad-res", "fail-res", "bad-req", "fail-req"} or
                             sum(1 for st in tr if st["c"].get("env") == "deliver-res") >= 2)


def check(res, tier, seed):
    pid = res.pid
    wd = C.workdir(pid)
    C.proof_obligations(res, pid, wd)
    binary = C.build_harness(wd)
    corpus = load_corpus()
    recs, deaths = [], []
    fam = collections.Counter()
    jobs = [("corpus", dict(family="ep-replay", seed=seed, cases=[dict(calls=c["calls"], choices=c["choices"]) for c in corpus]))]
    if tier == "quick":
        jobs.append(("random", dict(family="ep-random", seed=seed, n=220, params=dict(maxsteps=36, faultrate=10))))
        jobs.append(("faulty", dict(family="ep-random", seed=seed + 17, n=120, params=dict(maxsteps=30, faultrate=35))))
    else:
        jobs.append(("random", dict(family="ep-random", seed=seed, n=2500, params=dict(maxsteps=45, faultrate=10))))
        jobs.append(("faulty", dict(family="ep-random", seed=seed + 17, n=1500, params=dict(maxsteps=36, faultrate=35))))
    for name, job in jobs:
        rs, ds = run_ep_job(binary, wd, name, job, res)
        for r in rs:
            r["_family"] = name
        recs += rs
        fam[name] = len(rs)
        for d in ds:
            d["family"] = name
        deaths += ds
    mon = MONITORS[pid]
    monitor_hits = 0
    # a dead child is a crash (C05) or a leak (C15); for the other properties it is reported only
    # as a broken run when nothing else explains it
    for d in deaths:
        leak = d.get("leak")
        if d.get("hang"):
            monitor_hits += 1
            case = None
            if d["family"] == "corpus" and d.get("index") is not None and d["index"] < len(corpus):
                case = dict(name=corpus[d["index"]].get("_name"), calls=corpus[d["index"]]["calls"], choices=corpus[d["index"]]["choices"])
            res.violation("ep-hang", "implementation violates %s on a concrete schedule: the scenario never finishes - a goroutine of panrpc is stuck (on a mutex: it is neither parked at a yield point nor blocked in a select) and nothing any other goroutine does releases it (family %s, case %s)" % (pid, d["family"], d.get("index")),
                          dict(kind="ep", family=d["family"], index=d.get("index"), case=case, output=d["tail"]))
        elif leak and pid in ("C15", "C05", "C03"):
            monitor_hits += 1
            res.violation("ep-leak", "goroutines started by panrpc never exit after teardown: %s" % leak.get("leaked"),
                          dict(kind="ep", calls=leak.get("calls"), choices=leak.get("choices"), leaked=leak.get("leaked")))
        elif not leak:
            monitor_hits += 1
            line = next((l for l in d["tail"].splitlines() if l.startswith("panic:") or "fatal error" in l), (d["tail"].strip().splitlines() or ["?"])[-1])
            res.violation("ep-crash", "implementation violates %s on a concrete schedule: the process running the scenario died (family %s, case %s): %s" % (pid, d["family"], d.get("index"), line[:300]),
                          dict(kind="ep", family=d["family"], index=d["index"], output=d["tail"]))
        elif not leak:
            res.violation("ep-child-died", "harness child died in family %s at case %s (see output)" % (d["family"], d["index"]),
                          dict(kind="ep", family=d["family"], index=d["index"], output=d["tail"]), no_failing_input=True)
    # stream links torn down while a raw peer keeps sending (real scheduler, no yield points)
    if pid in ("C03", "C05", "C14", "C15"):
        nst = 36 if tier == "quick" else 600
        srecs, src, sout = C.run_job(binary, wd, "streamtear", dict(family="sys", seed=seed, n=nst, cases=["streamtear"]), timeout=400)
        fam["streamtear"] = len(srecs)
        if src != 0:
            tail = sout[-3000:]
            if pid in ("C05", "C15", "C14"):
                monitor_hits += 1
                line = next((l for l in sout.splitlines() if l.startswith("panic:") or "fatal error" in l), (sout.strip().splitlines() or ["?"])[-1])
                res.violation("streamtear-crash", "the process died while a stream link was torn down with the peer still sending: %s" % line[:300],
                              dict(kind="streamtear", last=srecs[-1] if srecs else None, output=tail))
        for r in srecs:
            vs = []
            for n in r.get("notes") or []:
                if pid == "C15" or (pid == "C14" and "enumerated" in n) or (pid == "C05" and ("did not return" in n or "deadlock" in n)) or (pid == "C03" and "did not return" in n):
                    vs.append(n)
            hooks = [e["m"] for e in r.get("events") or [] if e["kind"] == "hook"]
            if pid == "C14" and not r.get("hang") and sorted(hooks) != ["connect", "disconnect"]:
                vs.append("stream link teardown produced hook notifications %s, expected exactly one connect and one disconnect" % hooks)
            for c in r.get("calls") or []:
                if c.get("extra") == "inflight" and pid == "C03" and (not c.get("done") or c["err"] == ""):
                    vs.append("the call in flight when the stream link ended returned (%s, %r)" % (c.get("ret"), c["err"]))
            if vs:
                monitor_hits += 1
                res.violation("streamtear:" + re.sub(r"\d+", "N", vs[0])[:50], "implementation violates %s when a stream link is torn down: %s" % (pid, vs[0]),
                              dict(kind="streamtear", config=r["config"], seed=r["seed"], all=vs, link_error=r.get("linkA")))
    if pid == "C03":
        # a call in flight inside the enumeration callback when the transport fails (real scheduler)
        irecs, irc, iout = C.run_job(binary, wd, "inforremotes", dict(family="sys", seed=seed, n=(12 if tier == "quick" else 200), cases=["inforremotes"]), timeout=400)
        fam["inforremotes"] = len(irecs)
        for r in irecs:
            for c in r.get("calls") or []:
                if c["m"] == "GateInForRemotes" and (not c.get("done") or c["err"] == ""):
                    monitor_hits += 1
                    res.violation("inforremotes", "a call in flight inside the ForRemotes callback when the transport failed (%s): %s" % (r["config"], c["err"] or "returned a nil error without a response"),
                                  dict(kind="sys", family="inforremotes", config=r["config"], seed=r["seed"], call=c, notes=r.get("notes")))
    if pid == "C03":
        from . import sys_props
        qrecs, qrc, qout = C.run_job(binary, wd, "closureend", dict(family="sys", seed=seed, n=(12 if tier == "quick" else 240), cases=["closureend"]), timeout=600)
        fam["closureend(black-box)"] = len(qrecs)
        for r in qrecs:
            vs = sys_props.mon_closureend(r)
            if vs:
                monitor_hits += 1
                res.violation("closureend", "implementation violates C03: %s" % vs[0], dict(kind="sys", family="closureend", config=r["config"], seed=r["seed"], all=vs[:6]))
    if pid in ("C03", "C16", "C05"):
        # black box: a read fails with an error value panrpc uses as a signal elsewhere; a stuck response write
        from . import sys_props
        lrecs, lrc, lout = C.run_job(binary, wd, "linkend", dict(family="sys", seed=seed, n=(39 if tier == "quick" else 390), cases=["linkend"]), timeout=900)
        fam["linkend(black-box)"] = len(lrecs)
        if lrc != 0 and pid == "C05":
            monitor_hits += 1
            line = next((l for l in lout.splitlines() if l.startswith("panic:") or "fatal error" in l), (lout.strip().splitlines() or ["?"])[-1])
            res.violation("linkend-crash", "the process died in a link-ending scenario (last completed: %s): %s" % (lrecs[-1]["config"] if lrecs else "none", line[:300]),
                          dict(kind="sys", family="linkend", output=lout[-3000:]))
        for r in lrecs:
            if pid == "C05":
                # deadlocks: a link that ends while the application is inside an enumeration (the registry's lock is held)
                vs = []
                if "ForRemotes callback" in r.get("config", ""):
                    if r.get("hang"):
                        vs.append("%s: the scenario never finishes: goroutines are deadlocked inside panrpc" % r["config"])
                    for c in r.get("calls") or []:
                        if c["m"] == "LinkReturn" and c["ret"] != "returned":
                            vs.append("%s: Link never returns: the goroutine reporting the failure is deadlocked on the registry's lock, which the enumeration holds" % r["config"])
                    vs += [n for n in (r.get("notes") or []) if "enumeration did not finish" in n]
                # ... and in every link-ending scenario: nothing may be left deadlocked inside panrpc
                vs += [v + " - goroutines are deadlocked inside panrpc" for v in sys_props.mon_linkend(r)
                       if "did not return" in v or "never returned" in v or "did not finish" in v or "DID-NOT-RETURN" in v]
            elif pid == "C03":
                vs = sys_props.mon_linkend(r)
            else:
                vs = []
                for c in r.get("calls") or []:
                    if c["m"] == "LinkReturn" and c["ret"] == "returned" and "fails with" in r["config"]:
                        want = {"context.Canceled": "context canceled", "context.DeadlineExceeded": "context deadline exceeded", "io.EOF": "EOF",
                                "io.ErrUnexpectedEOF": "unexpected EOF", "net.ErrClosed": "use of closed network connection", "os.ErrDeadlineExceeded": "i/o timeout",
                                "utils.ErrClosed": "closed", "wrapped context.Canceled": "read tcp: context canceled", "plain": "connection reset by peer"}[r["config"].split("fails with ")[1].split(" (")[0]]
                        if c["err"] != want:
                            vs.append("%s: Link returned %r, not the first (and only) reported error %r" % (r["config"], c["err"], want))
                    elif c["m"] == "LinkReturn" and c["ret"] == "returned" and "with a cause" in r["config"]:
                        want = "context deadline exceeded" if "timed out" in r["config"] else "context canceled"
                        if c["err"] != want:
                            vs.append("%s: Link returned %r, not the context's error %r" % (r["config"], c["err"], want))
                    elif c["m"] == "LinkReturn" and c["ret"] == "returned" and c.get("oracle"):
                        if c["oracle"] not in c["err"]:
                            vs.append("%s: Link returned %r, not the failure that ended the link (%r)" % (r["config"], c["err"], c["oracle"]))
                    elif c["m"] == "LinkReturn" and c["ret"] != "returned":
                        vs.append("Link did not return although an error was reported (%s): %s" % (r["config"], c["ret"]))
                    elif c["m"] == "LinkStillUp" and c["ret"] != "up":
                        vs.append("Link returned %r on the %s although the link is healthy: only the context of one invocation of a callable was cancelled, a call was cancelled and a handler returned an error" % (c["err"], c.get("extra")))
            if vs:
                monitor_hits += 1
                res.violation("linkend:" + re.sub(r"\d+", "N", vs[0])[:60], "implementation violates %s: %s" % (pid, vs[0]),
                              dict(kind="sys", family="linkend", config=r["config"], seed=r["seed"], all=vs[:8], calls=r.get("calls")))
    if pid == "C14":
        from . import sys_props
        nrecs, nrc, nout = C.run_job(binary, wd, "nestedlink", dict(family="sys", seed=seed, n=(8 if tier == "quick" else 120), cases=["nestedlink"]), timeout=600)
        fam["nestedlink(black-box)"] = len(nrecs)
        for r in nrecs:
            vs = sys_props.mon_nestedlink(r)
            if vs:
                monitor_hits += 1
                res.violation("nestedlink", "implementation violates C14: %s" % vs[0], dict(kind="sys", family="nestedlink", config=r["config"], seed=r["seed"], all=vs[:6]))
        erecs, erc, eout = C.run_job(binary, wd, "enumrace", dict(family="sys", seed=seed, n=(12 if tier == "quick" else 200), cases=["enumrace"]), timeout=600)
        fam["enumrace(black-box)"] = len(erecs)
        for r in erecs:
            vs = sys_props.mon_enumrace(r)
            if vs:
                monitor_hits += 1
                res.violation("enumrace", "implementation violates C14: %s" % vs[0], dict(kind="sys", family="enumrace", seed=r["seed"], all=vs[:6]))
    if pid == "C04":
        # black-box cancellation scenarios (real scheduler, every configuration): cancelled calls that carry
        # closures, stale invocations, closure invocations with a context of their own
        from . import sys_props
        krecs, krc, kout = C.run_job(binary, wd, "cancel", dict(family="sys", seed=seed, n=(12 if tier == "quick" else 240), cases=["cancel"]), timeout=600)
        fam["cancel(black-box)"] = len(krecs)
        for r in krecs:
            vs = sys_props.mon_c04_sys(r)
            if vs:
                monitor_hits += 1
                res.violation("cancel:" + re.sub(r"\d+", "N", vs[0])[:50], "implementation violates C04: %s" % vs[0],
                              dict(kind="sys", family="cancel", config=r["config"], seed=r["seed"], all=vs[:8], calls=r.get("calls")))
    if pid == "C04":
        # real scheduler: responses released by the transport while the calls they answer are being cancelled
        rrecs, rrc, rout = C.run_job(binary, wd, "racestress", dict(family="sys", seed=seed, n=1, cases=["racestress"], params=dict(rounds=(400 if tier == "quick" else 6000))), timeout=600)
        fam["racestress(real scheduler)"] = len(rrecs)
        if rrc != 0 or not rrecs:
            monitor_hits += 1
            line = next((l for l in rout.splitlines() if l.startswith("panic:") or "fatal error" in l), (rout.strip().splitlines() or ["?"])[-1])
            res.violation("racestress-crash", "implementation violates C04: the process died while responses arrived for calls that were being cancelled (16 calls sharing one context, responses released by the transport at the moment of the cancellation): %s" % line[:300],
                          dict(kind="sys", family="racestress", output=rout[-3000:]))
        for r in rrecs:
            vs = list(r.get("notes") or [])
            for c in r.get("calls") or []:
                if c["m"] == "Probe" and (c["err"] != "" or c["ret"] != "42"):
                    vs.append("the link is not healthy %s: a later call returned (%s, %r)" % (c.get("extra"), c["ret"], c["err"]))
                if c["m"] == "CancelledThenDeadlinePassed" and (c["err"] != c.get("extra") or c["ret"] != "0"):
                    vs.append("a call made with a context that had been cancelled explicitly (and whose deadline passed afterwards) returned (%s, %r), expected the zero value and the context's error %r" % (c["ret"], c["err"], c.get("extra")))
                if c["m"] == "CancelledPointerResult" and (c["err"] != "context canceled" or c.get("extra") != "true"):
                    vs.append("a cancelled call of a function with a pointer result returned (%s, %r): expected the zero result (a nil pointer) and the context's error" % (c["ret"], c["err"]))
            if vs:
                monitor_hits += 1
                res.violation("racestress", "implementation violates C04: %s" % vs[0], dict(kind="sys", family="racestress", seed=r["seed"], all=vs[:6]))
    if pid == "C12":
        from . import sys_props
        hrecs2, hrc2, hout2 = C.run_job(binary, wd, "hubclosures", dict(family="sys", seed=seed, n=(12 if tier == "quick" else 200), cases=["hub"]), timeout=400)
        fam["hub(closures across links)"] = len(hrecs2)
        for r in hrecs2:
            vs = [v for v in sys_props.mon_c13(r) if "closure" in v]
            if vs:
                monitor_hits += 1
                res.violation("hub-closures", "implementation violates C12: %s (the closure's own call is still in flight)" % vs[0],
                              dict(kind="sys", family="hub", config=r["config"], seed=r["seed"], all=vs[:6]))
    if pid in ("C12", "C05", "C15"):
        # black-box closure workloads: registrations after failed / cancelled / late calls, closures that stall
        from . import sys_props
        crecs, crc, cout = C.run_job(binary, wd, "closures", dict(family="sys", seed=seed, n=(16 if tier == "quick" else 300), cases=["closures"], params=dict(percase=6)), timeout=400)
        fam["closures(black-box)"] = len(crecs)
        if pid == "C05":
            # real scheduler: overlapping closure registrations, look-ups and releases, plus a raw peer invoking unknown ids
            srecs3, src3, sout3 = C.run_job(binary, wd, "closurestress", dict(family="sys", seed=seed, n=1, cases=["closurestress"],
                                            params=dict(workers=32, perworker=(600 if tier == "quick" else 8000))), timeout=600)
            fam["closurestress(real scheduler)"] = len(srecs3)
            if src3 != 0 or not srecs3:
                monitor_hits += 1
                line = next((l for l in sout3.splitlines() if l.startswith("panic:") or "fatal error" in l), (sout3.strip().splitlines() or ["?"])[-1])
                res.violation("closurestress-crash", "the process died while 32 goroutines made closure-carrying calls on one registry and a raw peer invoked unknown closure ids: %s" % line[:300],
                              dict(kind="sys", family="closurestress", output=sout3[-3000:]))
            for r in srecs3:
                vs = list(r.get("notes") or []) + (["the closure stress did not finish (calls stuck inside panrpc)"] if r.get("hang") else [])
                if vs:
                    monitor_hits += 1
                    res.violation("closurestress", "implementation violates C05: %s" % vs[0], dict(kind="sys", family="closurestress", seed=r["seed"], all=vs[:6]))
        if pid == "C12":
            # a long history on one registry: thousands of sequential closure-carrying calls, table empty after each
            nlong = 5000 if tier == "quick" else 70000
            lrecs, lrc, lout = C.run_job(binary, wd, "closureslong", dict(family="sys", seed=seed, n=1, cases=["closureslong"], params=dict(long=nlong)), timeout=400)
            fam["closures(long history, %d sequential calls)" % nlong] = len(lrecs)
            crecs = crecs + lrecs
        if crc != 0 and pid == "C05":
            monitor_hits += 1
            res.violation("closures-crash", "the process died during the closure workload: %s" % (cout.strip().splitlines() or ["?"])[-1][:300], dict(output=cout[-3000:]))
        for r in crecs:
            vs = sys_props.mon_c11(r)
            if pid == "C12":
                vs = [v for v in vs if "registration" in v or "late invocation" in v or "CLOSURES-REMAIN" in v]
            elif pid == "C15":
                vs = [v for v in vs if "registration" in v or "CLOSURES-REMAIN" in v]
            else:
                vs = [v for v in vs if "stalled" in v or "wedged" in v or "cancelled while" in v or "did not finish" in v or "deadlock" in v]
                if r.get("hang"):
                    vs = vs or ["closure workload hangs: %s" % (r.get("notes") or "")]
            if vs:
                monitor_hits += 1
                res.violation("closures:" + re.sub(r"\d+", "N", vs[0])[:50], "implementation violates %s: %s" % (pid, vs[0]),
                              dict(kind="sys", family=r["family"], config=r["config"], seed=r["seed"], all=vs[:8]))
    if pid in ("C14", "C15", "C05"):
        # links whose context ends very early: cancelled before Link is called / from inside the connect notification
        ne = 6 if tier == "quick" else 60
        erecs, erc, eout = C.run_job(binary, wd, "earlycancel", dict(family="sys", seed=seed, n=ne, cases=["earlycancel"]), timeout=400)
        fam["earlycancel(black-box)"] = len(erecs)
        for r in erecs:
            vs = list(r.get("notes") or [])
            if r.get("hang"):
                vs = vs or ["the early-cancel scenario did not finish"]
            if pid == "C05":
                # deadlocks only: a handler that panicked inside an enumeration callback must not leave the registry locked
                vs = [v for v in vs if "blocks forever" in v or "did not finish" in v or "ENUM-PANIC" in v]
            if vs:
                monitor_hits += 1
                res.violation("earlycancel:" + re.sub(r"\d+", "N", vs[0])[:50], "implementation violates %s: %s: %s" % (pid, r["config"], vs[0]),
                              dict(kind="sys", family="earlycancel", config=r["config"], seed=r["seed"], all=vs[:8], events=[e for e in (r.get("events") or []) if e.get("kind") == "hook"]))
    if pid == "C15":
        # black-box over whole link lifecycles: nothing started inside panrpc still runs, nothing derived inside
        # panrpc still hangs off the application's context, after every link has been torn down
        from . import sys_props
        nr = 24 if tier == "quick" else 240
        lrecs, lrc, lout = C.run_job(binary, wd, "lifecycle", dict(family="sys", seed=seed, n=1, cases=["lifecycle"], params=dict(rounds=nr)), timeout=600)
        fam["lifecycle(%d link lifecycles, calls on ended links)" % nr] = len(lrecs)
        if not lrecs:
            monitor_hits += 1
            res.violation("lifecycle-crash", "the process died during the link lifecycle workload: %s" % (lout.strip().splitlines() or ["?"])[-1][:300], dict(output=lout[-3000:]))
        for r in lrecs:
            vs = list(r.get("notes") or [])
            if vs:
                monitor_hits += 1
                res.violation("lifecycle:" + re.sub(r"\d+", "N", vs[0])[:50], "implementation violates C15: %s" % vs[0],
                              dict(kind="sys", family="lifecycle", config=r["config"], seed=r["seed"], all=vs[:8]))
    if pid == "C14":
        # links of every kind of remote definition (valid, and rejected for each signature rule): enumeration against
        # the notifications while the link is up / rejected but not yet over / over
        rrecs, rrc, rout = C.run_job(binary, wd, "remotedefs", dict(family="remote", seed=seed, n=1), timeout=300)
        fam["remote definitions(enumeration vs notifications)"] = len(rrecs)
        for r in rrecs:
            vs = r.get("enum") or []
            if vs:
                monitor_hits += 1
                res.violation("remote-enum:" + r["def"], "implementation violates C14: remote definition %s: %s" % (r["def"], vs[0]),
                              dict(kind="remote", case=r))
    if pid == "C14":
        # black-box: hubs with failing and re-established links, notifications probed for atomicity
        from . import sys_props
        hrecs, hrc, hout = C.run_job(binary, wd, "hubhooks", dict(family="sys", seed=seed, n=(24 if tier == "quick" else 300), cases=["hub", "errors"], params=dict(percase=4)), timeout=400)
        fam["hub+errors(hooks)"] = len(hrecs)
        for r in hrecs:
            vs = sys_props.mon_hooks(r)
            if vs:
                monitor_hits += 1
                res.violation("hooks:" + re.sub(r"[0-9a-f-]{36}", "ID", vs[0])[:60], "implementation violates C14: %s" % vs[0],
                              dict(kind="sys", family=r["family"], config=r["config"], seed=r["seed"], all=vs[:8]))
    facts = [Facts(r) for r in recs]
    for r, f in zip(recs, facts):
        vs = mon(f)
        if vs:
            monitor_hits += 1
            r["_violates"] = vs
            res.violation("ep-monitor:" + re.sub(r"\d+", "N", vs[0])[:60], "implementation violates %s on a concrete schedule: %s" % (pid, vs[0]),
                          dict(kind="ep", calls=r["calls"], choices=choices_of(r), all=vs))
    mism, ncoq, untrans = ep.eval_cases(wd, "cases", recs)
    for ci, step in mism:
        r = recs[ci]
        if r.get("_violates"):
            continue
        pred = ep.predict(wd, r, step)
        res.violation("ep-correspondence", "Link.v (fixed) cannot follow the implementation at step %d of a schedule: the correspondence Link.lstep <-> registry.go no longer checks" % step,
                      dict(kind="ep", correspondence="LinkCheck.lconsistent fixed", theorems=res.coverage.get("theorems"),
                           calls=r["calls"], choices=choices_of(r), first_mismatching_step=step,
                           observed=r["trace"][step], model_predicts=pred),
                      no_failing_input=(monitor_hits == 0))
    for i in untrans:
        r = recs[i]
        if r.get("_violates"):
            continue
        res.violation("ep-untranslatable", "the implementation produced an observation the model has no word for (unknown label, thread or event)",
                      dict(kind="ep", calls=r["calls"], choices=choices_of(r)), no_failing_input=(monitor_hits == 0))
    if pid in ("C03", "C05", "C12", "C15"):
        from . import locksets
        srecs2, src2, sout2 = C.run_job(binary, wd, "stress", dict(family="bcast-stress", seed=seed, n=(60000 if tier == "quick" else 1500000), params=dict(budget_s=(40 if tier == "quick" else 150))), timeout=900)
        hang2 = next((l for l in sout2.splitlines() if l.startswith("STRESSHANG")), None)
        if hang2:
            monitor_hits += 1
            res.violation("bcast-stress-hang", "implementation violates %s: pending-call table under the real scheduler: %s" % (pid, hang2[len("STRESSHANG "):]), dict(kind="bcast-stress", output=sout2[-3000:]))
        elif src2 != 0 and pid in ("C05", "C03", "C15"):
            monitor_hits += 1
            line = next((l for l in sout2.splitlines() if l.startswith("panic:") or "fatal error" in l), (sout2.strip().splitlines() or ["?"])[-1])
            res.violation("bcast-stress-crash", "the process died while the pending-call table was used concurrently under the real scheduler (many pending calls woken by Close while their owners free them): %s" % line[:300],
                          dict(kind="bcast-stress", output=sout2[-3000:]))
        for sr in srecs2:
            if sr.get("violates") and pid in ("C03", "C15", "C05"):
                monitor_hits += 1
                res.violation("bcast-stress", "pending-call table under the real scheduler: %s (a call registered this way can never be woken: it hangs / its entry is retained)" % sr["violates"],
                              dict(kind="bcast-stress", result=sr))
        locksets.atomicity_obligation(res, monitor_hits)
    if pid in ("C03", "C05", "C12", "C14", "C15", "C16"):
        # regenerated from the sources (go/ast): the critical sections obey the discipline of Regions.v
        from . import regions
        regions.obligation(res, wd, monitor_hits)
    if getattr(res, "proof_broken", None):
        why, log = res.proof_broken
        res.violation("proof-broken", "proof obligations of %s no longer check: %s" % (pid, why),
                      dict(theorem_file="coq/theories/Props/%s.v" % pid, log=log), no_failing_input=(monitor_hits == 0))
    sigs = set(signature(r) for r in recs if nontrivial(r))
    dist = collections.Counter()
    for r in recs:
        dist["steps/10=%d" % (len(r["trace"] or []) // 10)] += 1
        dist["calls=%d" % len(r["calls"] or [])] += 1
        for st in r["trace"] or []:
            c = st["c"]
            dist["choice:" + (c.get("env") or "run:" + c["run"].split(":")[0])] += 1
    for f in facts:
        dist["ended" if f.ended else "healthy"] += 1
        dist["quiescent" if f.quiescent else "not-quiescent"] += 1
        for i, (k, v, e) in f.ret.items():
            dist["ret:" + (e[:14] if e else "nil")] += 1
    res.coverage.update(
        evaluations=sum(fam.values()), distinct_nontrivial=len(sigs),
        rule="window-level cases (counted in distinct_nontrivial; the black-box scenario families listed under 'families' are counted in evaluations only): each case = (call specs, schedule of thread releases and environment actions) run on one real registry endpoint against a scripted peer, "
             "every panrpc goroutine parked at the verifhook labels; generated from the seed (mostly valid workloads, fault rate 0/10/35%), plus corpus; "
             "distinct = distinct sequence of (choice kind, set of thread statuses); non-trivial = >= 8 steps and (>= 2 calls or a fault/cancel or >= 2 responses)",
        samples=[dict(calls=r["calls"], choices=choices_of(r)[:40]) for r in (recs[:1] + recs[-1:])],
        traces_validated_against_impl=ncoq, families=dict(fam), distribution=dict(dist), exhaustive=False,
        monitor_hits=monitor_hits, correspondence_mismatches=len(mism), child_deaths=len(deaths))
    res.assumptions += ["Go runtime semantics as modelled in Link.v (select wake-up order, buffered channel, sync.Cond)",
                        "uuid.NewString never repeats (call ids are distinct)", "user callbacks are the harness's: thread-safe, instantaneous"]
