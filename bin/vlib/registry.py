"""Which properties are claimed, by which module, and the MANIFEST texts."""

CLAIMED = {
    "C19": dict(
        module="bcast",
        technique="Coq proof (invariants by induction over all schedules of Bcast.v) + window-level model/implementation correspondence under testing/synctest evaluated by vm_compute",
        text="Theorems over every schedule of arbitrary client programs of the Broadcaster model (no crash; a blocked Publish/receive has no applicable reason to return; free/close/cancel never block; unknown-key publish returns at once); the model is tied to broadcaster.go by replaying thousands of generated and exhaustively enumerated window-level schedules on the real code (yield point between Publish's lookup and select) and checking inside Coq that the model admits every observation; an independent shadow monitor written from the property text turns disagreements into concrete failing schedules.",
        note="Trusted: Coq kernel + vm_compute; the hand-written model of Go's select/cancel semantics; the synctest harness. 'delivered to at most one receiver' is enforced by the shadow monitor and the correspondence; its Coq statement (delivery injectivity) is listed in DESIGN.md as not yet proved.",
        design="§5 C19, Appendix A"),
}

ALL = ["C%02d" % i for i in range(1, 21)]
