"""C20: translator (source -> access table) + discipline check in Coq + race-detector runs."""
import collections, json, os, re
from . import common as C

# shared locations and how accesses to them look in the source
LOCS = [
    ("broadcaster.channels", "go/pkg/utils/broadcaster.go", r"\bb\.channels\b"),
    ("broadcaster.closed", "go/pkg/utils/broadcaster.go", r"\bb\.closed\b"),
    ("closureManager.closures", "go/pkg/rpc/manager.go", r"\bm\.closures\b"),
    ("registry.remotes", "go/pkg/rpc/registry.go", r"\br\.remotes\b"),
    ("link.fatalErr", "go/pkg/rpc/registry.go", r"\bfatalErr\b(?!Lock)"),
    ("stream.decodeErr", "go/pkg/rpc/registry.go", r"\bdecodeErr\b"),
]
LOCK_RE = re.compile(r"([\w\.]+?)\.(Lock|Unlock|RLock|RUnlock)\(\)")


def strip_comment(line):
    i = line.find("//")
    return line if i < 0 else line[:i]


def extract_file(path):
    """Linear scan with a stack of block contexts; returns [(line, locs touched, write?, lockset, note)]."""
    src = open(path).read().splitlines()
    out = []
    # stack entries: dict(held=set, deferred=set, is_func=bool, saw_return=bool, entry=set)
    stack = [dict(held=set(), is_func=True, saw_return=False, entry=set())]
    for ln, raw in enumerate(src, 1):
        line = strip_comment(raw)
        cur = stack[-1]
        # lock operations on this line (in textual order)
        is_defer = line.strip().startswith("defer ")
        for m in LOCK_RE.finditer(line):
            name, op = m.group(1), m.group(2)
            kind = "R" if op.startswith("R") else "W"
            if op in ("Lock", "RLock"):
                cur["held"].add((name, kind))
            elif not is_defer:
                cur["held"] = set(h for h in cur["held"] if h[0] != name)
        if re.search(r"\breturn\b", line):
            cur["saw_return"] = True
        accs = []
        for loc, f, rx in LOCS:
            if path.endswith(f) and re.search(rx, line):
                m = re.search(rx, line)
                rest = line[m.end():]
                write = bool(re.match(r"\s*(\[[^\]]*\])?\s*=[^=]", rest)) or ("delete(" in line and re.search(r"delete\(\s*" + rx, line) is not None)
                decl = bool(re.search(r"\bvar\s+" + rx, line)) or bool(re.match(r"\s*" + rx.replace(r"\b", "") + r"\s+\w", line) and "=" not in line) \
                    or bool(re.search(r"^\s*(channels|closed|closures|remotes)\s*:", line)) or bool(re.search(r"^\s*(channels|closed|closures)\s+\S+\s*$", line))
                accs.append((loc, write, decl))
        for loc, write, decl in accs:
            out.append(dict(line=ln, text=raw.strip(), loc=loc, write=write, decl=decl, held=sorted(cur["held"])))
        # block structure
        opens, closes = line.count("{"), line.count("}")
        # process closes that come before opens on the line (e.g. "} else {")
        lead_closes = len(re.match(r"^[\s}]*", line).group(0).replace(" ", "").replace("\t", ""))
        for _ in range(min(lead_closes, closes)):
            if len(stack) > 1:
                done = stack.pop()
                if not done["is_func"] and done["saw_return"]:
                    pass            # a block that returns does not leak its unlocks: parent keeps its own state
                elif not done["is_func"]:
                    stack[-1]["held"] = done["held"]
        for _ in range(opens):
            is_func = bool(re.search(r"\bfunc\b[^{]*\{\s*$", line)) or bool(re.search(r"\bfunc\s*\(", line) and line.rstrip().endswith("{"))
            stack.append(dict(held=set() if is_func else set(stack[-1]["held"]), is_func=is_func, saw_return=False))
        for _ in range(max(0, closes - min(lead_closes, closes))):
            if len(stack) > 1:
                done = stack.pop()
                if not done["is_func"] and not done["saw_return"]:
                    stack[-1]["held"] = done["held"]
    return out


def publication_ok(path):
    """decodeErr: every write is followed by close(decodeDone) in the same block; every read follows `case <-decodeDone:`"""
    src = open(path).read().splitlines()
    notes = {}
    for i, raw in enumerate(src):
        line = strip_comment(raw)
        if re.search(r"\bdecodeErr\s*=[^=]", line):
            nxt = " ".join(strip_comment(x) for x in src[i + 1:i + 4])
            notes[i + 1] = "close(decodeDone)" in nxt
        elif re.search(r"\bdecodeErr\b", line) and not re.search(r"^\s*decodeErr\s+error", line) and "var" not in line:
            prev = " ".join(strip_comment(x) for x in src[max(0, i - 2):i])
            notes[i + 1] = "<-decodeDone" in prev
    return notes


def extract():
    table = []
    for f in ["go/pkg/utils/broadcaster.go", "go/pkg/rpc/manager.go", "go/pkg/rpc/registry.go"]:
        p = os.path.join(C.REPO, f)
        accs = extract_file(p)
        pub = publication_ok(p) if f.endswith("registry.go") else {}
        for a in accs:
            a["file"] = f
            a["pub"] = False
            if a["decl"]:
                a["pub"] = True           # declaration / initialisation before any goroutine can see it
            if a["loc"] == "stream.decodeErr":
                a["pub"] = a["decl"] or pub.get(a["line"], False)
            if a["loc"] == "link.fatalErr" and re.search(r"var\s+fatalErr", a["text"]):
                a["decl"] = True
            if a["decl"]:
                continue                  # declarations / zero initialisation precede every `go` statement that shares the variable
            table.append(a)
    return table


def check(res, tier, seed):
    pid = res.pid
    wd = C.workdir(pid)
    C.proof_obligations(res, pid, wd)
    table = extract()
    locs = sorted(set(a["loc"] for a in table))
    locks = sorted(set(h[0] for a in table for h in a["held"]))
    # an access under RLock only counts as guarded against writers that take the write lock: model a
    # read-locked WRITE as unguarded
    rows = []
    for a in table:
        ls = [locks.index(n) for n, kind in a["held"] if not (a["write"] and kind == "R")]
        rows.append("mkAcc %d %s [%s] %s" % (locs.index(a["loc"]), "true" if a["write"] else "false", "; ".join(map(str, ls)), "true" if a["pub"] else "false"))
    body = ("From Verif Require Import Base Lockset.\nDefinition accesses : list acc := [\n %s].\n"
            "Definition D := Eval vm_compute in discipline accesses.\nPrint D.\n"
            "Definition Bad := Eval vm_compute in flat_map (fun p => if forallb (pair_ok (snd p)) accesses then [] else [fst p]) (combine (seq 0 (length accesses)) accesses).\nPrint Bad.\n"
            % ";\n ".join(rows))
    ok, out = C.coq_eval(wd, "Accesses", body)
    if not ok:
        raise C.CheckError("coqc failed on the access table: " + out[-1500:])
    res.coverage["obligations"] = res.coverage.get("obligations", 0) + 1
    hits = 0
    # race detector on the concurrent workloads (concrete replay)
    race_reports = []
    try:
        binary = C.build_harness(wd, race=True)
        n = 16 if tier == "quick" else 120
        # concurrent workloads, and teardown paths with peers that keep sending (late responses racing Close)
        for fams in (["conc", "closures", "hub", "nest", "streamtear", "bursteof", "linkend", "cancel", "relay", "enumrace", "sharedhooks", "closurestress", "racestress"],):
            recs, rc, o = C.run_job(binary, wd, "race", dict(family="sys", seed=seed, n=n, cases=fams, params=dict(percase=10, workers=8, perworker=25, rounds=(120 if tier == "quick" else 1500))), timeout=1500,
                                    env_extra=dict(GORACE="halt_on_error=0"))
            for m in re.finditer(r"WARNING: DATA RACE.*?={18}", o, re.S):
                rep = m.group(0)
                if "panrpc/go/pkg/" in rep:
                    race_reports.append(rep[:3000])
            if rc != 0 and not race_reports and "DATA RACE" not in o:
                if "concurrent map" in o:
                    race_reports.append(o[-3000:])
                elif "send on closed channel" in o or "close of closed channel" in o:
                    # a channel closed by one goroutine while another sends on it: the conflicting pair the race
                    # detector also knows as closechan / chansend
                    race_reports.append("CHANNEL-CLOSE-RACE " + o[-3000:])
            res.coverage["race_run_records"] = len(recs)
            for r in recs:
                for note in r.get("notes") or []:
                    if note.startswith("HOOKS-VALUE-WRITTEN") and not any("HOOKS-VALUE-WRITTEN" in x for x in race_reports):
                        race_reports.append(note)
    except C.CheckError as e:
        res.notes.append("race build failed: %s" % e)
        raise
    for rep in race_reports[:3]:
        hits += 1
        where = re.findall(r"(/[\w/\.\-]*panrpc/go/pkg/\S+:\d+|pkg/\w+/\w+\.go:\d+)", rep)
        if rep.startswith("CHANNEL-CLOSE-RACE"):
            line = next((l for l in rep.splitlines() if l.startswith("panic:")), "panic")
            res.violation("race:channel-close", "implementation violates C20: the process died in the race run with '%s': one goroutine closes a channel of panrpc while another sends on it (unsynchronised close / send)" % line[:200],
                          dict(kind="race", output=rep[-3000:]))
            continue
        if rep.startswith("HOOKS-VALUE-WRITTEN"):
            res.violation("shared-hooks-written", "implementation violates C20: " + rep[len("HOOKS-VALUE-WRITTEN "):], dict(kind="sys", family="sharedhooks", note=rep))
            continue
        res.violation("race:" + (where[0].split("/")[-1] if where else "?"), "the race detector reports unsynchronised conflicting accesses inside panrpc: %s" % (where[:4],),
                      dict(kind="race", report=rep))
    m = re.search(r"D\s*=\s*(true|false)", out)
    bad = re.search(r"Bad\s*=\s*(\[.*?\])", out, re.S)
    bad_idx = [int(x) for x in re.findall(r"\d+", bad.group(1))] if bad else []
    if m and m.group(1) == "true":
        if res.coverage.get("discharged"):
            res.coverage["discharged"] += 1
    else:
        offenders = [dict(file=table[i]["file"], line=table[i]["line"], text=table[i]["text"], loc=table[i]["loc"], write=table[i]["write"], held=table[i]["held"]) for i in bad_idx[:8]]
        res.violation("lockset-discipline", "regenerated obligation discipline(accesses) = true fails: conflicting accesses without a common mutex or publication edge: %s" % [(o["file"].split("/")[-1], o["line"], o["loc"]) for o in offenders[:4]],
                      dict(kind="lockset", offenders=offenders, theorem="Props/C20.v lockset_sound"), no_failing_input=(hits == 0))
    if getattr(res, "proof_broken", None):
        why, log = res.proof_broken
        res.violation("proof-broken", "proof obligations of %s no longer check: %s" % (pid, why), dict(log=log), no_failing_input=(hits == 0))
    per_loc = collections.Counter(a["loc"] for a in table)
    res.coverage.update(evaluations=len(table) + res.coverage.get("race_run_records", 0), distinct_nontrivial=len([a for a in table if not a["decl"]]),
                        rule="access sites of the shared locations (Broadcaster.channels/closed, closureManager.closures, Registry.remotes, fatalErr, decodeErr) extracted from the "
                             "current sources with the mutexes syntactically held; the pairwise discipline is evaluated in Coq; plus the concurrent workloads under the race detector; "
                             "non-trivial = access sites that are not declarations",
                        samples=[dict(file=a["file"], line=a["line"], loc=a["loc"], write=a["write"], held=a["held"], pub=a["pub"]) for a in table[:6]],
                        traces_validated_against_impl=res.coverage.get("race_run_records", 0), access_sites=dict(per_loc), locks=locks, exhaustive=False,
                        monitor_hits=hits)
    res.assumptions += ["the extractor's list of shared locations is complete (trusted)", "channel operations and sync primitives synchronise as the Go memory model says",
                        "user-supplied transport/serializer functions are thread-safe (premise of the property)"]


# ---------------------------------------------------------------- atomicity assumptions of the models
EXPECTED_SECTIONS = {
    ("go/pkg/utils/broadcaster.go", "Publish"): 1, ("go/pkg/utils/broadcaster.go", "Receive"): 1,
    ("go/pkg/utils/broadcaster.go", "Free"): 1, ("go/pkg/utils/broadcaster.go", "Close"): 1,
    ("go/pkg/rpc/manager.go", "CallClosure"): 1, ("go/pkg/rpc/manager.go", "registerClosure"): 2,
}


def critical_sections():
    """number of Lock() calls in each method whose body the models treat as ONE atomic step"""
    out = {}
    for (f, fn), want in EXPECTED_SECTIONS.items():
        src = open(os.path.join(C.REPO, f)).read()
        m = re.search(r"\nfunc (?:\([^)]*\) )?%s\b.*?\n}\n" % fn, src, re.S)
        body = m.group(0) if m else ""
        out[(f, fn)] = (len(re.findall(r"\.(?:Lock|RLock)\(\)", body)), want)
    return out


def atomicity_obligation(res, hits):
    """The models (Bcast.v, Link.v, Closure.v) make each table operation one atomic step; that is only
    faithful while each of these methods has a single critical section."""
    bad = [(f, fn, got, want) for (f, fn), (got, want) in critical_sections().items() if got != want]
    res.coverage["obligations"] = res.coverage.get("obligations", 0) + 1
    if not bad:
        if res.coverage.get("discharged"):
            res.coverage["discharged"] += 1
        return True
    res.violation("atomicity-assumption", "the models treat %s as one critical section each, but the source now has %s: the correspondence (Bcast.bstep / Link.lstep atomic table operations) is no longer justified" % (
        ", ".join("%s.%s" % (os.path.basename(f), fn) for f, fn, _, _ in bad), ", ".join("%d lock acquisitions in %s" % (got, fn) for _, fn, got, _ in bad)),
        dict(kind="atomicity", offenders=[dict(file=f, function=fn, lock_calls=got, expected=want) for f, fn, got, want in bad],
             theorem="Bcast.v / Link.v step granularity (DESIGN.md §2.2)"), no_failing_input=(hits == 0))
    return False
