"""C18: remote definitions — Link's validation outcome and the wire names of the stubs vs Remote.v."""
import collections, json, os, re
from . import common as C


def cstr(s):
    return '"%s"%%string' % s


def lst(xs):
    return "[" + "; ".join(xs) + "]"


def rtype(n):
    if n["kind"] == "func":
        return "RFunc %d %s %d %s" % (n["nin"], "true" if n["ctx"] else "false", n["nout"], "true" if n["errlast"] else "false")
    if n["kind"] == "struct":
        return "RStruct %s" % fields(n)
    return "ROther"


def fields(n):
    return lst("(%s, %s)" % (cstr(f["name"]), rtype(f)) for f in n.get("fields") or [])


def check(res, tier, seed):
    pid = res.pid
    wd = C.workdir(pid)
    C.proof_obligations(res, pid, wd)
    binary = C.build_harness(wd)
    recs, rc, out = C.run_job(binary, wd, "remote", dict(family="remote", seed=seed, n=1))
    hits = 0
    if rc != 0:
        hits += 1
        res.violation("remote-crash", "the process died while linking a remote definition: %s" % (out.strip().splitlines() or ["?"])[-1][:300], dict(output=out[-3000:]))
    terms = []
    dist = collections.Counter()
    # end-to-end runs: every stub of a valid definition called against a real peer whose object graph mirrors
    # the definition (sub-objects by value and by pointer): the method at the same path must run
    e2e = [r for r in recs if r["def"].endswith("/e2e")]
    recs = [r for r in recs if not r["def"].endswith("/e2e")]
    for r in e2e:
        if r["linkerr"]:
            hits += 1
            res.violation("remote-e2e-link", "valid remote definition %s did not link against a real peer: %s" % (r["def"], r["linkerr"]), dict(kind="remote", case=r))
        for p_, ran in sorted((r.get("e2e") or {}).items()):
            dist["e2e-stub"] += 1
            if ran != p_:
                hits += 1
                res.violation("remote-e2e:" + p_, "remote definition %s: invoking the function field at path %r ran %s on the peer, expected exactly the peer's method at path %r" % (
                    r["def"], p_, ("nothing (the call failed:%s)" % ran.split("error:", 1)[1]) if ran.startswith(" error:") else ("the method(s) at %r" % ran) if ran else "nothing", p_), dict(kind="remote", case=r))
    expected = {"valid1": "", "valid2": "", "empty": "", "nofuncs": "", "chan-map-ptr": "", "sysremote": "", "epremote": "",
                "embedded": "", "widerctx": "", "names": "", "promoted": "", "unexp-ret": "invalid return", "unexp-args": "invalid arguments", "anyfirst": "invalid arguments",
                "badret0": "invalid return", "badret3": "invalid return", "badret-noerr": "invalid return", "badret-noerr1": "invalid return",
                "badargs0": "invalid arguments", "badargs-noctx": "invalid arguments", "twobad": "invalid arguments",
                "twobad2": "invalid return", "bothbad": "invalid return"}
    for r in recs:
        le = r["linkerr"]
        exp = expected.get(r["def"])
        if exp is not None and not (le == exp == "" or (exp and le.startswith(exp))):
            hits += 1
            res.violation("remote-validity:" + r["def"], "remote definition %s: Link %s, but by the signature rules it must %s" % (
                r["def"], "stays healthy" if le == "" else "fails with %r" % le, "link successfully" if exp == "" else "fail with the '%s' signature error" % exp),
                dict(kind="remote", case=r))
        le2 = r.get("linkerr2")
        if exp and le.startswith(exp) and le2 is not None and not le2.startswith(exp):
            hits += 1
            res.violation("remote-validity-relink:" + r["def"], "remote definition %s: the first link of the registry fails with %r as it must, but a second link of the same registry ends as %r: the definition must be rejected with the '%s' signature error on every link" % (
                r["def"], le, le2, exp), dict(kind="remote", case=r))
        if le == "":
            obs = "OOk %s" % lst("(%s, %s)" % (lst(cstr(x) for x in p.split(".")), cstr(n)) for p, n in sorted((r.get("names") or {}).items()))
            dist["ok"] += 1
            # implementation-side monitor: every stub's wire name is its own dotted field path
            for p, n in (r.get("names") or {}).items():
                if n != p:
                    hits += 1
                    res.violation("remote-name", "remote definition %s: the function field at path %r puts %r on the wire (callee-side lookup would resolve a different path)" % (r["def"], p, n),
                                  dict(kind="remote", case=r))
        elif le.startswith("invalid return"):
            obs = "OFail ErrInvalidReturn"
            dist["invalid-return"] += 1
        elif le.startswith("invalid arguments"):
            obs = "OFail ErrInvalidArgs"
            dist["invalid-args"] += 1
        else:
            hits += 1
            dist["other"] += 1
            res.violation("remote-other", "remote definition %s: Link ended with %r, neither healthy nor a signature error" % (r["def"], le), dict(kind="remote", case=r))
            continue
        terms.append("(%s, %s)" % (fields(r["desc"]), obs))
    body = ("From Coq Require Import String.\nFrom Verif Require Import Base Resolve Remote.\n"
            "Definition cases : list (list (string * rtype) * robs) := %s.\n"
            "Definition M := Eval vm_compute in map (fun c => rcheck (fst c) (snd c)) cases.\nPrint M.\n" % lst(terms).replace("); (", ");\n ("))
    ok, o = C.coq_eval(wd, "cases", body)
    if not ok:
        raise C.CheckError("coqc failed on remote cases: " + o[-1500:])
    m = re.search(r"M\s*=\s*(\[.*?\])\s*:", o, re.S)
    vals = re.findall(r"true|false", m.group(1)) if m else []
    for r, v in zip([r for r in recs], vals):
        if v == "false":
            res.violation("remote-correspondence", "Remote.v predicts a different validation outcome / stub naming than Link for definition %s (link error %r, names %s)" % (r["def"], r["linkerr"], r.get("names")),
                          dict(kind="remote", case=r, correspondence="Remote.rcheck"), no_failing_input=(hits == 0))
            hits += 0
    if getattr(res, "proof_broken", None):
        why, log = res.proof_broken
        res.violation("proof-broken", "proof obligations of %s no longer check: %s" % (pid, why), dict(log=log), no_failing_input=(hits == 0))
    nstubs = sum(len(r.get("names") or {}) for r in recs) + sum(len(r.get("e2e") or {}) for r in e2e)
    res.coverage.update(evaluations=len(recs) + nstubs, distinct_nontrivial=len(recs),
                        rule="each case = a hand-written remote definition type (valid nestings of depth 1-3 with non-function fields in all positions; invalid fields: no/too many results, "
                             "last result not an error, no parameters, first parameter not a context; first/nested/last position; two offenders in different orders) linked to a raw peer; "
                             "for valid ones every stub is called and its wire name read off the request frame; distinct = definitions",
                        samples=[dict(definition=r["def"], linkerr=r["linkerr"], names=r.get("names")) for r in recs[:4]],
                        traces_validated_against_impl=len(vals), distribution=dict(dist), exhaustive=False, monitor_hits=hits)
